"""Proof-script harness.  One proof script, two readings:

* `Harness`  (symbolic): inputs are SMT terms, /repo code runs in the pyvc interpreter, `oblige`
  generates a verification condition.
* `NativeHarness` (replay): inputs are the concrete values of a counterexample, /repo code is the
  real package executed by CPython, `oblige` evaluates the same Python expression natively.

Proof scripts must touch objects only through the harness (h.attr, h.items, h.new ...).
"""
from __future__ import annotations

from pyvc.values import unmodelled as _unmodelled  # noqa: E402
import os
import fractions
import importlib

import z3

from . import sym
from .sym import SBool, SInt, SReal, And, Or, Not, Implies, eq, is_sym
from .values import (Unsupported, PyExc, MISSING, Class, Instance, EnumMember, SEnum, Function, Builtin,
                     BoundMethod, Module, Coroutine, BytesVal, ABytes, SStr, DequeVal, SetVal, Opaque,
                     all_dc_fields)
from .interp import Interp, Path, PathEnd, LoopCut


class Outcome:
    def __init__(self, value=None, exc=None, exc_names=()):
        self.value = value
        self.exc = exc
        self._names = exc_names  # class names along the MRO of the raised exception

    @property
    def ok(self):
        return self.exc is None

    def raised(self, *names):
        """True iff an exception was raised that is an instance of one of the named classes."""
        if self.exc is None:
            return False
        return any(n in self._names for n in names)

    def __repr__(self):
        return f"Outcome(value={self.value!r})" if self.exc is None else f"Outcome(raised {self._names[0] if self._names else self.exc})"


def _exc_names(inst):
    return tuple(c.name if c.name != "StructError" else "struct.error" for c in inst.cls.mro)


class Harness:
    symbolic = True

    def __init__(self, interp: Interp, oset_name: str):
        self.it = interp
        self.path = interp.path
        self.loader = interp.loader
        self.oset_name = oset_name

    # -- symbolic inputs ---------------------------------------------------------------
    def _reg(self, name, v):
        if name in self.path.inputs:
            raise RuntimeError(f"duplicate input name {name}")
        self.path.inputs[name] = v
        return v

    def int(self, name, lo=None, hi=None):
        v = SInt(z3.Int(sym.fresh_name(name)))
        if lo is not None:
            self.path.assume(v >= lo)
        if hi is not None:
            self.path.assume(v <= hi)
        return self._reg(name, v)

    def byte(self, name):
        return self.int(name, 0, 255)

    def bool(self, name):
        return self._reg(name, SBool(z3.Bool(sym.fresh_name(name))))

    def real(self, name, lo=None, hi=None):
        v = SReal(z3.Real(sym.fresh_name(name)))
        if lo is not None:
            self.path.assume(v >= lo)
        if hi is not None:
            self.path.assume(v <= hi)
        return self._reg(name, v)

    def tenths(self, name, lo_k, hi_k):
        """A float on the 0.1 grid: k/10 for an integer k in [lo_k, hi_k] (decifloat domain)."""
        k = SInt(z3.Int(sym.fresh_name(name + "_k")))
        self.path.assume(And(k >= lo_k, k <= hi_k))
        v = sym.mkreal(sym.real_t(k) / 10)
        self._reg(name, v)
        return v

    def bytes(self, name, n, mutable=False, fixed=None):
        """n symbolic bytes; `fixed` = {index: value} pins some of them (an assumption here, constructed directly by the
        random native harness instead of being hit by chance)."""
        items = []
        for i in range(n):
            b = SInt(z3.Int(sym.fresh_name(f"{name}_{i}")))
            self.path.assume(And(b >= 0, b <= 255))
            items.append(b)
        for i, v in (fixed or {}).items():
            self.path.assume(items[i] == v, f"{name}[{i}] == {v}")
        return self._reg(name, BytesVal(items, mutable))

    def abytes(self, name, ln=None, min_len=0, max_len=None, native_fix=None):
        arr = z3.Array(sym.fresh_name(name), z3.IntSort(), z3.IntSort())
        if ln is None:
            ln = SInt(z3.Int(sym.fresh_name(name + "_len")))
            self.path.assume(ln >= min_len)
            if max_len is not None:
                self.path.assume(ln <= max_len)
            self.path.inputs[name + "_len"] = ln
        return self._reg(name, ABytes(arr, 0, ln, name))

    def enum(self, name, cls, only=None, exclude=()):
        if isinstance(cls, str):
            cls = self.get(cls)
        members = []
        for m in cls.members.values():
            if (only is None or m.name in only) and m.name not in exclude and m not in members:
                members.append(m)
        v = SInt(z3.Int(sym.fresh_name(name)))
        self.path.assume(Or(*[v == m.value for m in members]))
        return self._reg(name, SEnum(cls, v))

    def choice(self, name, options):
        """Complete case split over a finite list of alternatives (each its own path)."""
        k = self.path.choose(len(options), name)
        self.path.inputs["case:" + name] = k
        return options[k]

    def exact(self, x):
        """The exact value of a number for use in an obligation: symbolically numbers are exact already; natively a
        float is taken as the rational it is (obligations must not be decided by rounding in their own arithmetic)."""
        return x

    def native_choice(self, name, options):
        """A choice that only steers the *native search* towards interesting inputs (e.g. "the checksum is the real
        CRC with its bytes swapped"): the symbolic reading covers all inputs anyway and takes options[0]."""
        return options[0]

    def string(self, name, nbytes, no_nul=True, exclude_bytes=()):
        """A symbolic str whose UTF-8 encoding has exactly nbytes bytes (valid UTF-8 assumed)."""
        from .pybuiltins import utf8_valid
        items = []
        for i in range(nbytes):
            b = SInt(z3.Int(sym.fresh_name(f"{name}_{i}")))
            self.path.assume(And(b >= 0, b <= 255))
            if no_nul:
                self.path.assume(b != 0)
            for e in exclude_bytes:
                self.path.assume(b != e)
            items.append(b)
        bv = BytesVal(items)
        self.path.assume(utf8_valid(bv), "input str is modelled by its (valid) UTF-8 encoding")
        return self._reg(name, SStr(bv))

    def string_any(self, name, min_bytes=0, max_bytes=None):
        """A symbolic str of *symbolic length*: its UTF-8 encoding is a symbolic-length buffer (valid UTF-8
        assumed, which is the representation invariant of str)."""
        from .pybuiltins import utf8_valid, SStrA
        view = self.abytes(name, min_len=min_bytes, max_len=max_bytes)
        self.path.assume(utf8_valid(view), "input str is modelled by its (valid) UTF-8 encoding")
        return SStrA(view)

    def utf8_view(self, s):
        """The UTF-8 encoding of a str as a bytes value (symbolic-length strings: their buffer view)."""
        from .pybuiltins import SStrA
        if isinstance(s, SStrA):
            return s.view
        if isinstance(s, SStr):
            return s.data
        return BytesVal.of(s.encode("utf-8"))

    def frozen(self, buf):
        """bytes(buf): an immutable reading of a bytearray that was extended by symbolic-length buffers."""
        from .pybuiltins import Rope, _OpaqueTail
        if isinstance(buf, BytesVal) and any(isinstance(i, _OpaqueTail) for i in buf.items):
            parts, cur = [], []
            for i in buf.items:
                if isinstance(i, _OpaqueTail):
                    if cur:
                        parts.append(BytesVal(cur))
                        cur = []
                    parts.extend(i.part.parts if isinstance(i.part, Rope) else [i.part])
                else:
                    cur.append(i)
            if cur:
                parts.append(BytesVal(cur))
            out = BytesVal([])
            for q in parts:
                out = Rope.concat(self.it, out, q)
            return out
        return buf

    # -- access to the real code -----------------------------------------------------------
    def get(self, dotted):
        """'pkg.mod:Name.attr' -> object of the code under verification."""
        modname, _, qual = dotted.partition(":")
        obj = self.loader.load(modname)
        for part in qual.split("."):
            if part:
                obj = self.it.getattr(obj, part)
        return obj

    def new(self, cls, *args, **kwargs):
        if isinstance(cls, str):
            cls = self.get(cls)
        return self.it.instantiate(cls, list(args), kwargs)

    def raw(self, cls, **attrs):
        """Instance with the given attributes, bypassing __init__ (arbitrary object state)."""
        if isinstance(cls, str):
            cls = self.get(cls)
        return Instance(cls, dict(attrs))

    def _outcome_exc(self, e):
        if os.environ.get("PYVC_TRACE_EXC"):
            import sys as _sys
            print("  [interpreted exception]", _exc_names(e.value)[:1], getattr(e.value, "attrs", {}).get("args"), file=_sys.stderr)
        return Outcome(exc=e.value, exc_names=_exc_names(e.value))

    def call(self, fn, *args, **kwargs) -> Outcome:
        if isinstance(fn, str):
            fn = self.get(fn)
        try:
            v = self.it.call(fn, list(args), kwargs)
            if isinstance(v, Coroutine):
                v = self.it.await_value(v)
            return Outcome(value=v)
        except PyExc as e:
            return self._outcome_exc(e)
        except LoopCut:
            o = Outcome(value=None)
            o.cut = True
            return o

    def method(self, obj, name, *args, **kwargs) -> Outcome:
        try:
            fn = self.it.getattr(obj, name)
        except PyExc as e:
            return self._outcome_exc(e)
        return self.call(fn, *args, **kwargs)

    def attr(self, obj, name):
        return self.it.getattr(obj, name)

    def setattr(self, obj, name, v):
        if isinstance(obj, Instance):
            obj.attrs[name] = v
        else:
            self.it.setattr(obj, name, v)

    def prop(self, obj, name) -> Outcome:
        try:
            return Outcome(value=self.it.getattr(obj, name))
        except PyExc as e:
            return self._outcome_exc(e)

    def items(self, b):
        """List of the byte values of a bytes-like value of concrete length."""
        if isinstance(b, BytesVal):
            return list(b.items)
        if isinstance(b, (bytes, bytearray)):
            return list(b)
        raise Unsupported(f"items() of {type(b).__name__}")

    def mkbytes(self, items, mutable=False):
        return BytesVal(list(items), mutable)

    def length(self, x):
        from .pybuiltins import py_len
        return py_len(self.it, x)

    def elems(self, seq):
        return self.it.iterate(seq)

    def value(self, enum_member):
        return enum_member.value

    def member(self, cls, name):
        if isinstance(cls, str):
            cls = self.get(cls)
        return cls.members[name]

    def members(self, cls):
        if isinstance(cls, str):
            cls = self.get(cls)
        out = []
        for m in cls.members.values():
            if m not in out:
                out.append(m)
        return out

    def isinstance(self, v, cls):
        if isinstance(cls, str):
            cls = self.get(cls)
        return self.it.isinstance_(v, cls)

    def enum_code(self, v, cls, table):
        """table: member name -> integer code; returns the code of the (possibly symbolic) member v."""
        acc = None
        for m in reversed(self.members(cls)):
            code = table[m.name]
            acc = code if acc is None else sym.ite(self.it.enum_eq(v, m), code, acc)
        return acc

    def is_none(self, v):
        return v is None

    def is_member(self, v, cls, name):
        return self.it.enum_eq(v, self.member(cls, name))

    def contains(self, container, item):
        return self.it.contains(container, item)

    def time(self, hour, minute):
        from .stdlib import TimeVal
        return TimeVal(hour, minute)

    def timedelta_minutes(self, minutes):
        from .stdlib import TimeDelta
        return TimeDelta(minutes * 60000000)

    def utf8(self, s):
        """UTF-8 bytes of a str as a list of byte values."""
        if isinstance(s, str):
            return list(s.encode("utf-8"))
        if isinstance(s, SStr):
            return list(s.data.items)
        raise Unsupported("utf8() of " + type(s).__name__)

    # -- helpers added for contracts/at4_ext_timer.py (each has a native twin below) --------------
    def subset(self, name, universe):
        """A symbolic subset of a concrete universe (one symbolic bool per element, no forking)."""
        from .gsets import GuardedSet
        return GuardedSet([(self.bool(f"{name}_{e}"), e) for e in universe])

    def slice(self, buf, lo, hi=None):
        """buf[lo:hi] with Python slicing semantics (bounds may be symbolic; may fork on clamping)."""
        from .interp import SymSlice
        if is_sym(lo) or is_sym(hi):
            return self.it.getitem(buf, SymSlice(lo, hi, None))
        return self.it.getitem(buf, slice(lo, hi))

    def split_at(self, buf, n):
        """(list of the first n byte values, the rest) of a buffer known to hold at least n bytes;
        also works on a concatenation whose tail has symbolic length."""
        from .pybuiltins import Rope
        if isinstance(buf, Rope):
            head = buf.parts[0]
            if isinstance(head, BytesVal) and len(head.items) == n and len(buf.parts) == 2:
                return list(head.items), buf.parts[1]
            if isinstance(head, BytesVal) and len(head.items) > n:
                return list(head.items[:n]), Rope([BytesVal(head.items[n:])] + buf.parts[1:])
            raise Unsupported("split_at inside a symbolic-length part")
        if isinstance(buf, (bytes, bytearray)):
            buf = BytesVal.of(buf)
        if isinstance(buf, BytesVal):
            if len(buf.items) < n:
                raise Unsupported("split_at beyond the end of the buffer")
            return list(buf.items[:n]), BytesVal(buf.items[n:])
        if isinstance(buf, ABytes):
            items = []
            for i in range(n):
                b = buf.at(i)
                self.path.assume(And(b >= 0, b <= 255))
                items.append(b)
            return items, ABytes(buf.arr, buf.off + n, buf.ln - n, buf.name)
        raise Unsupported(f"split_at() of {type(buf).__name__}")

    def stub(self, label, **methods):
        """An object whose methods are the given Python callables (a component specified by a
        contract instead of by code): obj.<name>(*args) calls methods[name](*args)."""
        class _Stub:
            def __repr__(s):
                return f"<stub {label}>"

            def py_getattr(s, it, name):
                if name in methods:
                    return Builtin(f"{label}.{name}", methods[name])
                raise _unmodelled(self, name)

        return _Stub()

    def same(self, a, b):
        """Python `a is b`."""
        return self.it.identical(a, b)

    def contains(self, container, item):
        """Python `item in container` (bool / SBool)."""
        return self.it.contains(container, item)

    # -- logic -------------------------------------------------------------------------------
    def assume(self, c, why=None):
        self.path.assume(c, why)

    def oblige(self, name, cond, detail=None, kind="post"):
        return self.path.oblige(name, cond, kind=kind, detail=detail)

    def fail(self, name, detail=None):
        return self.path.oblige(name, False, detail=detail)

    def eq(self, a, b):
        return self.it.py_eq(a, b)

    def branch(self, c):
        return self.path.branch(c)

    def cover(self, name):
        ok = self.path.feasible()
        self.path.notes.append(("cover", name, ok))

    def note_assumption(self, text):
        self.path.assumed.append(text)


# ----------------------------------------------------------------------------------------------
# native reading


class ReplayMismatch(Exception):
    pass


class NativeHarness:
    """Runs a proof script on the real package under CPython with the inputs of a counterexample."""

    symbolic = False

    def __init__(self, inputs: dict, oset_name: str):
        self.inputs = inputs
        self.oset_name = oset_name
        self.failed = []  # (name, detail)
        self.checked = []
        self.assume_violations = []

    def _in(self, name):
        if name not in self.inputs:
            raise ReplayMismatch(f"counterexample has no value for input {name!r}")
        return decode_native(self.inputs[name])

    def int(self, name, lo=None, hi=None):
        return int(self._in(name))

    byte = int

    def bool(self, name):
        return bool(self._in(name))

    def real(self, name, lo=None, hi=None):
        return float(self._in(name))

    def tenths(self, name, lo_k, hi_k):
        return float(self._in(name))

    def bytes(self, name, n, mutable=False, fixed=None):
        v = self._in(name)
        return bytearray(v) if mutable else bytes(v)

    def abytes(self, name, ln=None, min_len=0, max_len=None, native_fix=None):
        return bytes(self._in(name))

    def enum(self, name, cls, only=None, exclude=()):
        if isinstance(cls, str):
            cls = self.get(cls)
        v = self.inputs[name]
        return cls[v["name"]] if "name" in v else cls(v["value"])

    def choice(self, name, options):
        return options[int(self.inputs["case:" + name])]

    def exact(self, x):
        from fractions import Fraction
        if isinstance(x, bool) or x is None:
            return x
        if isinstance(x, (int, float)):
            return Fraction(x)
        return x

    def native_choice(self, name, options):
        k = self.inputs.get("native:" + name)
        return options[int(k)] if k is not None else options[0]

    def string(self, name, nbytes, no_nul=True, exclude_bytes=()):
        return bytes(self.inputs[name]["__str_utf8__"]).decode("utf-8")

    def string_any(self, name, min_bytes=0, max_bytes=None):
        raw = bytes(self._in(name))
        try:
            return raw.decode("utf-8")
        except UnicodeDecodeError:
            # the solver's bytes are arbitrary where validity is an uninterpreted predicate: not a str
            self.assume_violations.append("input str is modelled by its (valid) UTF-8 encoding")
            return raw.decode("utf-8", "replace")

    def frozen(self, buf):
        return bytes(buf)

    def utf8_view(self, s):
        return s.encode("utf-8")

    def get(self, dotted):
        modname, _, qual = dotted.partition(":")
        obj = importlib.import_module(modname)
        for part in qual.split("."):
            if part:
                obj = getattr(obj, part)
        return obj

    def new(self, cls, *args, **kwargs):
        if isinstance(cls, str):
            cls = self.get(cls)
        return cls(*args, **kwargs)

    def raw(self, cls, **attrs):
        if isinstance(cls, str):
            cls = self.get(cls)
        o = object.__new__(cls)
        for k, v in attrs.items():
            object.__setattr__(o, k, v)
        return o

    def _run(self, thunk):
        import asyncio
        import inspect
        try:
            v = thunk()
            if inspect.iscoroutine(v):
                v = asyncio.run(v)
            return Outcome(value=v)
        except BaseException as e:  # noqa: BLE001
            names = tuple(("struct.error" if c.__module__ == "struct" and c.__name__ == "error" else c.__name__)
                          for c in type(e).__mro__)
            return Outcome(exc=e, exc_names=names)

    def call(self, fn, *args, **kwargs):
        if isinstance(fn, str):
            fn = self.get(fn)
        return self._run(lambda: fn(*args, **kwargs))

    def method(self, obj, name, *args, **kwargs):
        return self._run(lambda: getattr(obj, name)(*args, **kwargs))

    def attr(self, obj, name):
        return getattr(obj, name)

    def setattr(self, obj, name, v):
        object.__setattr__(obj, name, v)

    def prop(self, obj, name):
        return self._run(lambda: getattr(obj, name))

    def items(self, b):
        return list(b)

    def mkbytes(self, items, mutable=False):
        return bytearray(items) if mutable else bytes(items)

    def length(self, x):
        return len(x)

    def elems(self, seq):
        return list(seq)

    def value(self, enum_member):
        return enum_member.value

    def member(self, cls, name):
        if isinstance(cls, str):
            cls = self.get(cls)
        return cls[name]

    def members(self, cls):
        if isinstance(cls, str):
            cls = self.get(cls)
        return list(cls)

    def isinstance(self, v, cls):
        if isinstance(cls, str):
            cls = self.get(cls)
        return isinstance(v, cls)

    def enum_code(self, v, cls, table):
        return table[v.name]

    def is_none(self, v):
        return v is None

    def is_member(self, v, cls, name):
        return v is self.member(cls, name)

    def contains(self, container, item):
        return item in container

    def time(self, hour, minute):
        import datetime
        return datetime.time(hour, minute)

    def timedelta_minutes(self, minutes):
        import datetime
        return datetime.timedelta(minutes=minutes)

    def utf8(self, s):
        return list(s.encode("utf-8"))

    # -- native twins of the helpers added for contracts/at4_ext_timer.py ------------------------
    def subset(self, name, universe):
        return {e for e in universe if self.bool(f"{name}_{e}")}

    def slice(self, buf, lo, hi=None):
        return buf[lo:hi]

    def split_at(self, buf, n):
        return list(buf[:n]), buf[n:]

    def stub(self, label, **methods):
        return type("Stub_" + "".join(c if c.isalnum() else "_" for c in label), (),
                    {k: staticmethod(v) for k, v in methods.items()})()

    def same(self, a, b):
        return a is b

    def contains(self, container, item):
        return item in container

    def assume(self, c, why=None):
        if not bool(c):
            self.assume_violations.append(why or "assumption")

    def oblige(self, name, cond, detail=None, kind="post"):
        ok = bool(cond)
        self.checked.append(name)
        if not ok:
            self.failed.append((name, detail))
        return ok

    def fail(self, name, detail=None):
        self.checked.append(name)
        self.failed.append((name, detail))
        return False

    def eq(self, a, b):
        return a == b

    def branch(self, c):
        return bool(c)

    def cover(self, name):
        pass

    def note_assumption(self, text):
        pass


def decode_native(v):
    """JSON counterexample value -> native Python value (scalars and bytes only; objects are
    rebuilt by the proof script itself through h.new)."""
    if isinstance(v, dict):
        if "__bytes__" in v:
            return bytes(int(x) % 256 for x in v["__bytes__"])
        if "__str_utf8__" in v:
            return bytes(v["__str_utf8__"]).decode("utf-8")
        return v
    return v


# ----------------------------------------------------------------------------------------------
# concrete reading inside the pyvc interpreter (conformance of the VC generator against CPython)


class SkipConformance(Exception):
    pass


class ConcreteHarness(Harness):
    """Same proof script, inputs concrete (taken from a recorded native run), code executed by the pyvc
    interpreter.  Every `oblige` condition must evaluate to the same truth value as in the native run
    of the real package under CPython; a difference is a bug of the VC generator (checker error)."""

    concrete = True

    def __init__(self, interp, oset_name, inputs):
        super().__init__(interp, oset_name)
        self.inputs_in = inputs
        self.outcomes = []

    def _in(self, name):
        if name not in self.inputs_in:
            raise SkipConformance(f"no recorded value for {name}")
        return self.inputs_in[name]

    def exact(self, x):
        from fractions import Fraction
        if isinstance(x, bool) or x is None or not isinstance(x, (int, float)):
            return x
        return Fraction(x)

    def native_choice(self, name, options):
        if self.inputs_in.get("native:" + name):
            raise SkipConformance("the native run steered its inputs (native_choice); the sample is not comparable")
        return options[0]

    def int(self, name, lo=None, hi=None):
        return int(self._in(name))

    def byte(self, name):
        return int(self._in(name))

    def bool(self, name):
        return bool(self._in(name))

    def real(self, name, lo=None, hi=None):
        return float(self._in(name))

    def tenths(self, name, lo_k, hi_k):
        return float(self._in(name))

    def bytes(self, name, n, mutable=False, fixed=None):
        v = self._in(name)
        return BytesVal(list(v["__bytes__"]), mutable)

    def abytes(self, name, ln=None, min_len=0, max_len=None, native_fix=None):
        raise SkipConformance("symbolic-length buffers are exercised through loop contracts only")

    def enum(self, name, cls, only=None, exclude=()):
        if isinstance(cls, str):
            cls = self.get(cls)
        v = self._in(name)
        return cls.members[v["name"]]

    def choice(self, name, options):
        return options[int(self._in("case:" + name))]

    def string(self, name, nbytes, no_nul=True, exclude_bytes=()):
        return bytes(self._in(name)["__str_utf8__"]).decode("utf-8")

    def string_any(self, name, min_bytes=0, max_bytes=None):
        return bytes(self._in(name)["__bytes__"]).decode("utf-8")

    def assume(self, c, why=None):
        if c is not True and not (isinstance(c, SBool) and bool(c)):
            raise SkipConformance("assumption not satisfied by the sample")

    def oblige(self, name, cond, detail=None, kind="post"):
        self.outcomes.append((name, bool(cond)))
        return bool(cond)

    def fail(self, name, detail=None):
        self.outcomes.append((name, False))
        return False

    def branch(self, c):
        return bool(c)

    def cover(self, name):
        pass
