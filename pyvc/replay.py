"""Native replay of counterexamples: the proof script is executed on the real package under CPython.

  python3-vt -m pyvc.replay <file.json>      replay a recorded counterexample
  python3-vt -m pyvc.replay -                 (stdin: {"oset":..,"inputs":..,"search_seed":..}) used by pyvc.check

If `inputs` is null, a bounded native search is done instead: the same proof script is run on
randomly drawn inputs inside the declared ranges (the contract is executable), looking for an
input on which some obligation fails on the real code.
"""
from __future__ import annotations

import importlib
import json
import os
import random
import sys

VERIF = os.path.dirname(os.path.dirname(os.path.abspath(__file__)))
REPO = os.environ.get("PYVC_REPO", "/repo")
for p in (VERIF, REPO):
    if p not in sys.path:
        sys.path.insert(0, p)

from pyvc.harness import NativeHarness, ReplayMismatch  # noqa: E402


class _Discard(Exception):
    pass


class NativeTimeout(KeyboardInterrupt):
    """The real code did not come back within the wall-clock limit (e.g. a changed loop that never yields, or a
    virtual-time schedule that never ends).  Derived from KeyboardInterrupt on purpose: asyncio swallows any other
    BaseException raised inside a callback (it logs it and keeps the loop running), but re-raises this one."""


class wall_clock_limit:
    """Native readings run the real code: a change that makes it spin must not hang the check."""

    def __init__(self, seconds):
        self.seconds = seconds

    def __enter__(self):
        import signal
        import threading
        self.active = threading.current_thread() is threading.main_thread()
        if self.active:
            def onalarm(signum, frame):
                raise NativeTimeout(f"no result after {self.seconds} s of wall-clock time")
            self.old = signal.signal(signal.SIGALRM, onalarm)
            # repeating: scenario code may swallow the first one (`except BaseException`), the next one comes 5 s later
            signal.setitimer(signal.ITIMER_REAL, self.seconds, 5.0)
        return self

    def __exit__(self, *a):
        import signal
        if self.active:
            signal.setitimer(signal.ITIMER_REAL, 0)
            signal.signal(signal.SIGALRM, self.old)
        return False


NATIVE_LIMIT_S = float(os.environ.get("PYVC_NATIVE_LIMIT_S", "30"))


class RandomHarness(NativeHarness):
    """Inputs are drawn at random inside the declared ranges; violated assumptions discard the sample."""

    def __init__(self, rng, oset_name):
        super().__init__({}, oset_name)
        self.rng = rng
        self.magic = _magic_numbers(oset_name)
        self._special_bytes = sorted({0, 1, 0x7F, 0x80, 0xFE, 0xFF} | {m for m in self.magic if 0 <= m <= 255})

    def _rec(self, name, v, enc=None):
        self.inputs[name] = enc if enc is not None else v
        return v

    def int(self, name, lo=None, hi=None):
        lo2 = -3 if lo is None else lo
        hi2 = (lo2 + 300) if hi is None else hi
        r = self.rng.random()
        near = [m for m in self.magic if lo2 <= m <= hi2]
        if r < 0.12:
            v = lo2
        elif r < 0.24:
            v = hi2
        elif r < 0.30:
            v = min(hi2, lo2 + 1) if r < 0.27 else max(lo2, hi2 - 1)
        elif r < 0.55 and near:
            # the fuzzer's dictionary: the integer literals of the code under contract and their neighbours
            v = self.rng.choice(near)
        else:
            v = self.rng.randint(lo2, hi2)
        return self._rec(name, v)

    byte = int

    def bool(self, name):
        return self._rec(name, self.rng.random() < 0.5)

    def real(self, name, lo=None, hi=None):
        lo2 = -50.0 if lo is None else float(lo)
        hi2 = 150.0 if hi is None else float(hi)
        k = self.rng.randint(int(lo2 * 20), int(hi2 * 20))
        v = min(max(k / 20.0, lo2), hi2)
        r = self.rng.random()
        if r < 0.3 and self.magic:
            # around the literals of the code under contract (limits, offsets), at the resolutions the codecs use
            c = self.rng.choice(self.magic) + self.rng.choice([0.0, 0.0, 0.05, -0.05, 0.1, -0.1, 0.5, -0.5, 0.45, -0.45, 0.55, -0.55])
            if lo2 <= c <= hi2:
                v = c
        return self._rec(name, v)

    def tenths(self, name, lo_k, hi_k):
        return self._rec(name, self.rng.randint(lo_k, hi_k) / 10)

    def _byte(self):
        # mostly uniform; sometimes a sentinel-like value or a small literal of the code under contract
        if self.rng.random() < 0.2:
            return self.rng.choice(self._special_bytes)
        return self.rng.randrange(256)

    def bytes(self, name, n, mutable=False, fixed=None):
        raw = [self._byte() for _ in range(n)]
        for i, val in (fixed or {}).items():
            raw[i] = val
        v = bytes(raw)
        self._rec(name, v, {"__bytes__": list(v)})
        return bytearray(v) if mutable else v

    def abytes(self, name, ln=None, min_len=0, max_len=None, native_fix=None):
        hi = min(max_len, 48) if max_len is not None else 48
        n = ln if isinstance(ln, int) else self.rng.randint(min_len, max(min_len, hi))
        raw = bytearray(self._byte() for _ in range(n))
        if native_fix is not None:
            native_fix(raw)   # construct what the script assumes instead of hitting it by chance
        v = bytes(raw)
        self._rec(name, v, {"__bytes__": list(v)})
        return v

    def enum(self, name, cls, only=None, exclude=()):
        if isinstance(cls, str):
            cls = self.get(cls)
        ms = [m for m in cls if (only is None or m.name in only) and m.name not in exclude]
        m = self.rng.choice(ms)
        self._rec(name, m, {"__enum__": f"{cls.__module__}:{cls.__qualname__}", "name": m.name})
        return m

    def choice(self, name, options):
        k = self.rng.randrange(len(options))
        self.inputs["case:" + name] = k
        return options[k]

    def string(self, name, nbytes, no_nul=True, exclude_bytes=()):
        alphabet = "abcXYZ 019é€𝄞-_/"
        for _ in range(200):
            s = ""
            while len(s.encode()) < nbytes:
                s += self.rng.choice(alphabet)
            b = s.encode()
            if len(b) == nbytes and not any(x in b for x in exclude_bytes):
                self._rec(name, s, {"__str_utf8__": list(b)})
                return s
        raise _Discard()

    def native_choice(self, name, options):
        k = self.rng.randrange(len(options))
        self.inputs["native:" + name] = k
        return options[k]

    def string_any(self, name, min_bytes=0, max_bytes=None):
        alphabet = "abcXYZ 019é€𝄞-_/,\x00"
        hi = max_bytes if max_bytes is not None else 300
        r = self.rng.random()
        target = min_bytes if r < 0.1 else hi if r < 0.25 else self.rng.randint(min_bytes, min(hi, 60)) if r < 0.8 else self.rng.randint(min_bytes, hi)
        s = ""
        while len(s.encode()) < target:
            s += self.rng.choice(alphabet)
        while len(s.encode()) > hi:
            s = s[:-1]
        if len(s.encode()) < min_bytes:
            raise _Discard()
        b = s.encode()
        self._rec(name, s, {"__bytes__": list(b)})
        self.inputs[name + "_len"] = len(b)
        return s

    def assume(self, c, why=None):
        if not bool(c):
            raise _Discard()


def conformance(oset_name, seed, tries):
    """Differential run: real package on CPython vs the pyvc interpreter, same proof script, same inputs.
    Returns dict(samples, compared, disagreements[list])."""
    import hashlib
    from pyvc.harness import ConcreteHarness, SkipConformance
    from pyvc.interp import Interp, Path, PathEnd, LoopCut
    from pyvc.values import Unsupported, PyExc
    from pyvc import check as chk, vc
    o = find_oset(oset_name)
    rng = random.Random(int(hashlib.sha1(f"{oset_name}/{seed}".encode()).hexdigest()[:8], 16))
    loader = chk._LOADER or chk.build_loader()
    chk._LOADER = loader
    samples = compared = 0
    dis = []
    for _ in range(tries):
        hn = RandomHarness(rng, oset_name)
        try:
            with wall_clock_limit(NATIVE_LIMIT_S):
                o.fn(hn)
        except NativeTimeout as e:
            return {"samples": samples, "compared": compared, "disagreements": dis, "skipped": f"native run did not return: {e}"}
        except _Discard:
            continue
        except Exception as e:  # noqa: BLE001
            return {"samples": samples, "compared": compared, "disagreements": dis, "skipped": f"native run raised {type(e).__name__}: {e}"}
        if not hn.checked:
            return {"samples": 0, "compared": 0, "disagreements": [], "skipped": "no native reading"}
        native = list(zip(hn.checked, [n not in [f[0] for f in hn.failed] for n in hn.checked]))
        # native harness records names; rebuild (name, held) in order
        held = []
        failed_names = [f[0] for f in hn.failed]
        fi = 0
        for n in hn.checked:
            if fi < len(failed_names) and failed_names[fi] == n:
                held.append((n, False))
                fi += 1
            else:
                held.append((n, True))
        it = Interp(loader)
        it.path = Path([])
        it.undo = []
        vc._install_undo(it)
        hc = ConcreteHarness(it, oset_name, _jsonable(hn.inputs))
        if "clock0" in hn.inputs:
            it.path.ghost["now"] = float(hn.inputs["clock0"])
        try:
            o.fn(hc)
        except SkipConformance as e:
            return {"samples": samples, "compared": compared, "disagreements": dis, "skipped": str(e)}
        except (PathEnd, LoopCut):
            pass
        except Unsupported as e:
            return {"samples": samples, "compared": compared, "disagreements": dis, "skipped": f"unsupported concretely: {e}"}
        except Exception as e:  # noqa: BLE001
            dis.append({"inputs": _jsonable(hn.inputs), "error": f"interpreter raised {type(e).__name__}: {e}"})
            continue
        finally:
            for obj, name, old in reversed(it.undo):
                if old is vc.MISSING:
                    obj.attrs.pop(name, None)
                else:
                    obj.attrs[name] = old
        samples += 1
        compared += len(held)
        deterministic = not hn.inputs  # a script without inputs: further tries would repeat this one
        # compare per obligation name (a script may state extra obligations in one of the readings)
        def by_name(lst):
            d = {}
            for n, v in lst:
                d.setdefault(n, []).append(v)
            return d
        a, b = by_name(held), by_name(hc.outcomes)
        common = [n for n in a if n in b]
        diff = [n for n in common if a[n] != b[n]]
        compared -= len(held) - sum(len(a[n]) for n in common)
        if diff:
            dis.append({"inputs": _jsonable(hn.inputs), "differs": {n: {"cpython": a[n], "pyvc": b[n]} for n in diff[:5]}})
        if deterministic:
            break
    return {"samples": samples, "compared": compared, "disagreements": dis}


_MAGIC = {}


def _magic_numbers(oset_name):
    """Integer literals (and their neighbours) of the modules the functions under contract live in."""
    if oset_name in _MAGIC:
        return _MAGIC[oset_name]
    import ast
    out = set()
    try:
        o = find_oset(oset_name)
        repo = os.environ.get("PYVC_REPO", "/repo")
        for fn in o.functions:
            path = os.path.join(repo, *fn.split(":")[0].split(".")) + ".py"
            if not os.path.exists(path):
                path = os.path.join(repo, *fn.split(":")[0].split("."), "__init__.py")
            if not os.path.exists(path):
                continue
            for n in ast.walk(ast.parse(open(path).read())):
                if isinstance(n, ast.Constant) and isinstance(n.value, (int, float)) and not isinstance(n.value, bool) and abs(n.value) <= 1 << 20:
                    c = int(n.value)
                    out.update((c - 1, c, c + 1))
    except Exception:  # noqa: BLE001
        pass
    _MAGIC[oset_name] = sorted(out)
    return _MAGIC[oset_name]


def find_oset(name):
    from contracts import index
    from pyvc import vc
    for mods in index.MODULES.values():
        for m in mods:
            importlib.import_module(m)
    for o in vc.REGISTRY:
        if o.name == name:
            return o
    raise KeyError(name)


def run_native(oset_name, inputs):
    o = find_oset(oset_name)
    h = NativeHarness(inputs, oset_name)
    try:
        with wall_clock_limit(NATIVE_LIMIT_S):
            o.fn(h)
    except NativeTimeout as e:
        return {"reproduced": True, "failed": ["the real code returns (native run of the proof script)"], "checked": len(h.checked),
                "note": f"the real code under this proof script did not return: {e}"}
    except ReplayMismatch as e:
        return {"reproduced": False, "note": str(e)}
    except Exception as e:  # noqa: BLE001
        return {"reproduced": False, "note": f"proof script raised natively: {type(e).__name__}: {e}"}
    if h.assume_violations:
        return {"reproduced": False, "note": "counter-model violates an assumption natively: " + "; ".join(map(str, h.assume_violations[:3]))}
    return {"reproduced": bool(h.failed), "failed": [f[0] for f in h.failed], "checked": len(h.checked),
            "checked_names": sorted(set(h.checked))}


def search_native(oset_name, seed, tries=4000, budget_s=None):
    """Bounded native search: the proof script on the real package with random inputs inside the declared ranges.
    `budget_s` bounds the wall-clock time of the whole search (the number of inputs actually run is reported)."""
    import time as _time
    o = find_oset(oset_name)
    rng = random.Random(seed)
    ran = 0
    evaluated = 0
    names = set()
    t_end = None if budget_s is None else _time.time() + budget_s
    for _ in range(tries):
        if t_end is not None and _time.time() > t_end:
            break
        h = RandomHarness(rng, oset_name)
        try:
            with wall_clock_limit(NATIVE_LIMIT_S):
                o.fn(h)
        except NativeTimeout as e:
            return {"reproduced": True, "failed": ["the real code returns (native run of the proof script)"], "inputs": _jsonable(h.inputs),
                    "tries": ran, "evaluated": evaluated, "note": f"the real code did not return: {e}"}
        except _Discard:
            continue
        except Exception as e:  # noqa: BLE001
            return {"reproduced": False, "note": f"proof script raised natively during search: {type(e).__name__}: {e}"}
        if not h.checked:
            return {"reproduced": False, "note": "this obligation set has no native reading", "tries": 0}
        ran += 1
        evaluated += len(h.checked)
        names.update(h.checked)
        if h.failed:
            return {"reproduced": True, "failed": [f[0] for f in h.failed], "inputs": _jsonable(h.inputs), "tries": ran, "evaluated": evaluated}
        if not h.inputs:
            break  # a script without inputs (a fixed schedule library, a lemma over all grid values): one run says it all
    return {"reproduced": False, "note": f"bounded native search: {ran} random inputs, no failing one", "tries": ran, "evaluated": evaluated,
            "checked_names": sorted(map(str, names))}


def _jsonable(d):
    out = {}
    for k, v in d.items():
        try:
            json.dumps(v)
            out[k] = v
        except TypeError:
            out[k] = repr(v)
    return out


def replay_file(path):
    rec = json.load(open(path))
    res = run_native(rec["oset"], rec["inputs"]) if rec.get("inputs") is not None else {"reproduced": False, "note": "no inputs recorded"}
    print(json.dumps(res))
    if res.get("reproduced"):
        print(f"REPRODUCED property={rec['property']} obligation={rec['obligation']!r} failed natively: {res['failed']}")
        return 1
    print(f"NOT-REPRODUCED property={rec['property']} obligation={rec['obligation']!r}: {res.get('note')}")
    return 0


def main():
    if len(sys.argv) > 1 and sys.argv[1] != "-":
        sys.exit(replay_file(sys.argv[1]))
    req = json.loads(sys.stdin.read())
    import logging   # the package's own log output (tracebacks in a tight failure loop can be millions of lines) is not a result
    lg = logging.getLogger("pyairtouch")
    lg.addHandler(logging.NullHandler())
    lg.propagate = False
    logging.getLogger("asyncio").setLevel(logging.CRITICAL)
    if req.get("inputs") is not None:
        res = run_native(req["oset"], req["inputs"])
    else:
        res = search_native(req["oset"], req.get("search_seed") or 0)
    print(json.dumps(res, default=str))


if __name__ == "__main__":
    main()
