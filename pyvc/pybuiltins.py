"""Builtins, methods of native container values and models of the stdlib modules used by /repo."""
from __future__ import annotations

import fractions

import z3

from . import sym
from .sym import SBool, SInt, SBV, SReal, And, Or, Not, eq, is_sym, mkbool
from .values import (Unsupported, PyExc, MISSING, Class, TypeDummy, Instance, EnumMember, SEnum,
                     all_dc_fields, Function, Builtin, BoundMethod, Property, StaticMethod,
                     ClassMethod, Module, Coroutine, BytesVal, ABytes, SStr, DequeVal, SetVal,
                     Opaque, GuardedList, byte_range)


def B(name, needs_interp=False):
    def deco(f):
        return Builtin(name, f, needs_interp)
    return deco


# -------------------------------------------------------------------------------------
# exception hierarchy

_EXC_TREE = {
    "BaseException": None,
    "Exception": "BaseException",
    "CancelledError": "BaseException",
    "KeyboardInterrupt": "BaseException",
    "ArithmeticError": "Exception",
    "ZeroDivisionError": "ArithmeticError",
    "OverflowError": "ArithmeticError",
    "AssertionError": "Exception",
    "AttributeError": "Exception",
    "EOFError": "Exception",
    "IncompleteReadError": "EOFError",
    "ImportError": "Exception",
    "LookupError": "Exception",
    "IndexError": "LookupError",
    "KeyError": "LookupError",
    "NameError": "Exception",
    "OSError": "Exception",
    "ConnectionError": "OSError",
    "ConnectionResetError": "ConnectionError",
    "ConnectionRefusedError": "ConnectionError",
    "ConnectionAbortedError": "ConnectionError",
    "BrokenPipeError": "ConnectionError",
    "TimeoutError": "OSError",
    "RuntimeError": "Exception",
    "NotImplementedError": "RuntimeError",
    "RecursionError": "RuntimeError",
    "StopIteration": "Exception",
    "TypeError": "Exception",
    "ValueError": "Exception",
    "UnicodeError": "ValueError",
    "UnicodeDecodeError": "UnicodeError",
    "UnicodeEncodeError": "UnicodeError",
    "StructError": "Exception",  # struct.error
    "InvalidStateError": "Exception",
    "FrozenInstanceError": "AttributeError",
}


def make_builtins():
    b = {}
    for name, parent in _EXC_TREE.items():
        b[name] = Class(name, [b[parent]] if parent else [], {})
    for name in ("int", "bool", "float", "str", "bytes", "bytearray", "list", "tuple", "dict", "set",
                 "frozenset", "object", "NoneType", "type", "range", "slice"):
        b[name] = Class(name, [], {})
    b["bool"].bases = [b["int"]]
    b["bool"].mro = [b["bool"], b["int"]]

    # constructors / conversions are dispatched through __native_new__
    b["int"].ns["__native_new__"] = _int_new
    b["bool"].ns["__native_new__"] = lambda it, cls, a, k: it.truth(a[0]) if a else False
    b["float"].ns["__native_new__"] = _float_new
    b["str"].ns["__native_new__"] = _str_new
    b["bytes"].ns["__native_new__"] = lambda it, cls, a, k: _bytes_new(it, a, k, False)
    b["bytearray"].ns["__native_new__"] = lambda it, cls, a, k: _bytes_new(it, a, k, True)
    b["list"].ns["__native_new__"] = lambda it, cls, a, k: list(it.iterate(a[0])) if a else []
    b["tuple"].ns["__native_new__"] = lambda it, cls, a, k: tuple(it.iterate(a[0])) if a else ()
    b["dict"].ns["__native_new__"] = _dict_new
    b["set"].ns["__native_new__"] = lambda it, cls, a, k: SetVal(it.iterate(a[0])) if a else SetVal()
    b["frozenset"].ns["__native_new__"] = lambda it, cls, a, k: SetVal(it.iterate(a[0])) if a else SetVal()
    b["object"].ns["__native_new__"] = lambda it, cls, a, k: Instance(cls)
    b["type"].ns["__native_new__"] = lambda it, cls, a, k: it.class_of(a[0])
    b["range"].ns["__native_new__"] = _range_new

    def reg(name, needs_interp=True):
        def deco(f):
            b[name] = Builtin(name, f, needs_interp)
            return f
        return deco

    @reg("len")
    def _len(it, x):
        return py_len(it, x)

    @reg("isinstance")
    def _isinstance(it, obj, cls):
        return it.isinstance_(obj, cls)

    @reg("issubclass")
    def _issubclass(it, c, d):
        return c.is_subclass(d)

    @reg("reversed")
    def _reversed(it, x):
        return list(reversed(it.iterate(x)))

    @reg("enumerate")
    def _enumerate(it, x, start=0):
        return [(i + start, v) for i, v in enumerate(it.iterate(x))]

    @reg("zip")
    def _zip(it, *xs, strict=False):
        lists = [it.iterate(x) for x in xs]
        if strict and len({len(l) for l in lists}) > 1:
            raise it.exc("ValueError", "zip() arguments have different lengths")
        return list(zip(*lists))

    @reg("sorted")
    def _sorted(it, x, key=None, reverse=False):
        items = it.iterate(x)
        if any(is_sym(i) for i in items):
            raise Unsupported("sorted on symbolic values")
        return sorted(items, reverse=reverse) if key is None else sorted(items, key=lambda v: it.call(key, [v], {}), reverse=reverse)

    @reg("min")
    def _min(it, *xs, **kw):
        if len(xs) == 1:
            xs = it.iterate(xs[0])
        acc = xs[0]
        for x in xs[1:]:
            # Python's min keeps the first of equal elements
            acc = _select(it, x < acc, x, acc)
        return acc

    @reg("max")
    def _max(it, *xs, **kw):
        if len(xs) == 1:
            xs = it.iterate(xs[0])
        acc = xs[0]
        for x in xs[1:]:
            acc = _select(it, x > acc, x, acc)
        return acc

    @reg("sum")
    def _sum(it, xs, start=0):
        acc = start
        for x in it.iterate(xs):
            acc = acc + x
        return acc

    @reg("any")
    def _any(it, xs):
        return Or(*[it.truth(x) for x in it.iterate(xs)])

    @reg("all")
    def _all(it, xs):
        return And(*[it.truth(x) for x in it.iterate(xs)])

    @reg("abs")
    def _abs(it, x):
        if is_sym(x):
            return sym.ite(x >= 0, x, -x)
        return abs(x)

    @reg("round")
    def _round(it, x, ndigits=None):
        return py_round(it, x, ndigits)

    @reg("divmod")
    def _divmod(it, a, b):
        if not is_sym(a) and not is_sym(b):
            return divmod(a, b)
        if isinstance(a, SReal) or isinstance(a, float):
            if isinstance(b, int) and b > 0:
                q = sym.mkint(z3.ToInt(sym.real_t(a) / sym.real_t(b)))
                return (sym.mkreal(z3.ToReal(sym.int_t(q))), sym.mkreal(sym.real_t(a) - sym.real_t(b) * z3.ToReal(sym.int_t(q))))
            raise Unsupported("divmod of real by non-constant")
        return (a // b, a % b)

    @reg("repr")
    def _repr(it, x):
        return repr(x) if isinstance(x, (int, str, float, bool, type(None))) else Opaque("repr")

    @reg("hash")
    def _hash(it, x):
        return Opaque("hash")

    @reg("id")
    def _id(it, x):
        return id(x)

    @reg("callable")
    def _callable(it, x):
        return isinstance(x, (Function, Builtin, BoundMethod, Class)) or hasattr(x, "py_call")

    @reg("getattr")
    def _getattr(it, o, n, d=MISSING):
        try:
            return it.getattr(o, n)
        except PyExc:
            if d is MISSING:
                raise
            return d

    @reg("hasattr")
    def _hasattr(it, o, n):
        try:
            it.getattr(o, n)
            return True
        except PyExc:
            return False

    @reg("setattr")
    def _setattr(it, o, n, v):
        it.setattr(o, n, v)

    @reg("print")
    def _print(it, *a, **k):
        return None

    @reg("iter")
    def _iter(it, x):
        return list(it.iterate(x))

    @reg("memoryview")
    def _memoryview(it, x):
        # read-only uses only: a view of a bytes-like object is modelled by an immutable copy (slices of it are views of
        # the same bytes, which is all unpack_from / indexing / len / bytes() observe)
        if isinstance(x, (bytes, bytearray)):
            x = BytesVal.of(x)
        if isinstance(x, BytesVal):
            return BytesVal(list(x.items), False)
        if isinstance(x, ABytes):
            return x
        raise Unsupported("memoryview of " + type(x).__name__)

    @reg("property")
    def _property(it, f):
        return Property(f)

    @reg("staticmethod")
    def _static(it, f):
        return StaticMethod(f)

    @reg("classmethod")
    def _clsm(it, f):
        return ClassMethod(f)

    @reg("super")
    def _super(it, *a):
        from .interp import _Super
        return _Super(a[0], a[1])

    b["NotImplemented"] = Opaque("NotImplemented")
    b["Ellipsis"] = Ellipsis
    b["__name__"] = "__main__"
    b["True"] = True
    b["False"] = False
    b["None"] = None
    b["__debug__"] = True
    return b


def _select(it, cond, a, b):
    """Scalar select without forking when possible."""
    if isinstance(cond, bool):
        return a if cond else b
    try:
        return sym.ite(cond, a, b)
    except TypeError:
        return a if it.path.branch(cond) else b


def py_len(it, x):
    if isinstance(x, (list, tuple, dict, str, bytes, bytearray, range)):
        return len(x)
    if isinstance(x, BytesVal):
        return len(x.items)
    if isinstance(x, ABytes):
        return x.ln
    if isinstance(x, SStr):
        # number of characters = number of UTF-8 bytes that are not continuation bytes (10xxxxxx)
        acc = 0
        for b in x.data.items:
            acc = acc + (sym.ite(Or(b < 0x80, b >= 0xC0), 1, 0) if is_sym(b) else (0 if 0x80 <= b < 0xC0 else 1))
        return acc
    if isinstance(x, (SetVal, DequeVal)):
        return len(x.items)
    if isinstance(x, GuardedList):
        acc = 0
        for g, _ in x.pairs:
            acc = acc + sym.ite(g, 1, 0)
        return acc
    f = getattr(x, "py_len", None)
    if f is not None:
        return f(it)
    if isinstance(x, Instance):
        m = x.cls.lookup("__len__")
        if m is not MISSING:
            return it.call(BoundMethod(m, x), [], {})
    if x is None or isinstance(x, (bool, int, float)) or is_sym(x) or (type(x) is Instance and not getattr(x.cls, "is_namedtuple", False)
                                                                        and all(getattr(c, "node", None) is not None or c.name == "object" for c in x.cls.mro)):
        raise it.exc("TypeError", f"object of type {type(x).__name__} has no len()")
    raise Unsupported(f"len() of {type(x).__name__} is not modelled")


def py_round(it, x, ndigits=None):
    """round(): result is the nearest representable (ties to even on the exact decimal value).

    Assumed CPython behaviour (documented): correctly rounded.  Encoded by a fresh
    integer k with |k - x*10^n| <= 1/2 and k even on a tie.
    """
    if not is_sym(x):
        return round(x) if ndigits is None else round(x, ndigits)
    if isinstance(x, (SInt, SBool)):
        return x if ndigits is None or ndigits >= 0 else (_ for _ in ()).throw(Unsupported("round(int, negative)"))
    if isinstance(x, SBV):
        return x.to_int()
    scale = 1 if ndigits is None else 10 ** ndigits
    if ndigits is not None and (not isinstance(ndigits, int) or ndigits < 0):
        raise Unsupported("round with symbolic / negative ndigits")
    k, _ = sym.fresh_int("round")
    xs = x * scale
    d = k - xs  # real
    it.path.assume(And(d <= fractions.Fraction(1, 2), d >= fractions.Fraction(-1, 2)), "round(): correctly rounded")
    tie = Or(d == fractions.Fraction(1, 2), d == fractions.Fraction(-1, 2))
    it.path.assume(sym.Implies(tie, (k % 2) == 0), "round(): ties to even")
    if ndigits is None:
        return k
    return sym.mkreal(sym.real_t(k) / sym.real_t(scale))


def _int_new(it, cls, a, k):
    if not a:
        return 0
    x = a[0]
    if len(a) > 1 or k:
        if isinstance(x, str):
            return int(x, *a[1:], **k)
        raise Unsupported("int(x, base) on symbolic")
    if isinstance(x, (SReal, SInt, SBool)):
        return sym.trunc_int(x)
    if isinstance(x, SBV):
        return x.to_int()
    if isinstance(x, (int, float, str, bool, fractions.Fraction)):
        try:
            return int(x)
        except ValueError:
            raise it.exc("ValueError", "invalid literal for int()")
    if isinstance(x, SStr):
        raise Unsupported("int() of a symbolic str")
    raise Unsupported(f"int() of {type(x).__name__}")


def _float_new(it, cls, a, k):
    if not a:
        return 0.0
    x = a[0]
    if isinstance(x, (SInt, SBool, SBV)):
        return sym.mkreal(sym.real_t(x))
    if isinstance(x, SReal):
        return x
    return float(x)


def _str_new(it, cls, a, k):
    if not a:
        return ""
    x = a[0]
    if isinstance(x, (int, float, str, bool)) or x is None:
        return str(x)
    if isinstance(x, SStr):
        return x
    return Opaque("str()")


def _bytes_new(it, a, k, mutable):
    if not a:
        return BytesVal([], mutable)
    x = a[0]
    enc = k.get("encoding", a[1] if len(a) > 1 else None)
    if isinstance(x, str):
        if enc is None:
            raise it.exc("TypeError", "string argument without an encoding")
        return BytesVal.of(x.encode(enc), mutable)
    if isinstance(x, SStr):
        return BytesVal(list(x.data.items), mutable)
    if isinstance(x, bool):
        raise Unsupported("bytes(bool)")
    if isinstance(x, int):
        return BytesVal([0] * x, mutable)
    if is_sym(x):
        raise Unsupported("bytes(n) with symbolic n")
    if isinstance(x, ABytes):
        return x
    items = it.iterate(x)
    for i in items:
        if isinstance(i, int):
            if not 0 <= i <= 255:
                raise it.exc("ValueError", "bytes must be in range(0, 256)")
        elif is_sym(i):
            if it.path.branch(Not(And(i >= 0, i <= 255))):
                raise it.exc("ValueError", "bytes must be in range(0, 256)")
    return BytesVal(items, mutable)


def _dict_new(it, cls, a, k):
    d = {}
    if a:
        x = a[0]
        if isinstance(x, dict):
            d.update(x)
        else:
            for kv in it.iterate(x):
                kk, vv = it.iterate(kv)
                d[kk] = vv
    d.update(k)
    return d


def _range_new(it, cls, a, k):
    if any(is_sym(x) for x in a):
        return SymRange(*a)
    return range(*a)


class SymRange:
    """range() with a symbolic bound: only usable through a loop contract."""

    def __init__(self, *a):
        if len(a) == 1:
            self.start, self.stop, self.step = 0, a[0], 1
        elif len(a) == 2:
            self.start, self.stop, self.step = a[0], a[1], 1
        else:
            self.start, self.stop, self.step = a

    def py_iter(self, it):
        # bounded enumeration is never done silently
        raise Unsupported("iteration over range() with a symbolic bound without a loop contract")

    def __repr__(self):
        return f"SymRange({self.start},{self.stop},{self.step})"


# -------------------------------------------------------------------------------------
# indexing / slicing


def _norm_index(it, i, n):
    if i < 0:
        i += n
    if i < 0 or i >= n:
        raise it.exc("IndexError", "index out of range")
    return i


def getitem(it, obj, idx):
    from .interp import SymSlice
    if isinstance(obj, (bytes, bytearray)):
        obj = BytesVal.of(obj, isinstance(obj, bytearray))
    if isinstance(obj, BytesVal):
        if isinstance(idx, slice):
            return BytesVal(obj.items[idx], obj.mutable)
        if isinstance(idx, SymSlice):
            return _sym_slice_bytes(it, obj, idx)
        if is_sym(idx):
            return _sym_index(it, obj.items, idx)
        return obj.items[_norm_index(it, idx, len(obj.items))]
    if isinstance(obj, ABytes):
        return abytes_getitem(it, obj, idx)
    if isinstance(obj, (list, tuple)):
        if isinstance(idx, slice):
            return obj[idx]
        if isinstance(idx, SymSlice):
            raise Unsupported("list slice with symbolic bounds")
        if is_sym(idx):
            return _sym_index(it, list(obj), idx)
        try:
            return obj[idx]
        except IndexError:
            raise it.exc("IndexError", "list index out of range")
        except TypeError:
            raise Unsupported(f"list index {idx!r}")
    if isinstance(obj, dict):
        return dict_lookup(it, obj, idx, MISSING)
    if isinstance(obj, str):
        if is_sym(idx) or isinstance(idx, SymSlice):
            raise Unsupported("str index symbolic")
        try:
            return obj[idx]
        except IndexError:
            raise it.exc("IndexError", "string index out of range")
    if isinstance(obj, DequeVal):
        if is_sym(idx):
            return _sym_index(it, obj.items, idx)
        try:
            return obj.items[idx]
        except IndexError:
            raise it.exc("IndexError", "deque index out of range")
    if isinstance(obj, SStr):
        raise Unsupported("indexing a symbolic str")
    if isinstance(obj, range):
        return obj[idx]
    f = getattr(obj, "py_getitem", None)
    if f is not None:
        return f(it, idx)
    if type(obj) is Instance and getattr(obj.cls, "is_namedtuple", False) and not is_sym(idx):
        from .values import all_dc_fields
        vals = [obj.attrs.get(f[0]) for f in all_dc_fields(obj.cls)]
        try:
            return vals[idx] if not isinstance(idx, slice) else tuple(vals[idx])
        except IndexError:
            raise it.exc("IndexError", "tuple index out of range")
    if isinstance(obj, Instance):
        m = obj.cls.lookup("__getitem__")
        if m is not MISSING:
            return it.call(BoundMethod(m, obj), [idx], {})
    raise Unsupported(f"subscript on {type(obj).__name__}")


def _sym_index(it, items, idx):
    """items[idx] with symbolic idx: ite-chain when all items are scalars, else fork."""
    n = len(items)
    if isinstance(idx, SBV):
        idxi = idx
    else:
        idxi = idx
    oob = Or(idxi < -n, idxi >= n) if not isinstance(idx, SBV) else (idxi >= n)
    if it.path.branch(oob):
        raise it.exc("IndexError", "index out of range")
    if n == 0:
        raise it.exc("IndexError", "index out of range")
    if not isinstance(idx, SBV) and it.path.branch(idxi < 0):
        idxi = idxi + n
    if all(isinstance(v, (int, SInt, SBV)) and not isinstance(v, bool) for v in items):
        if isinstance(idxi, SBV) and all(isinstance(v, int) for v in items):
            w = max(max(v.bit_length() for v in items), 1)
            acc = z3.BitVecVal(items[-1], w)
            for k in range(n - 2, -1, -1):
                acc = z3.If(idxi.t == z3.BitVecVal(k, idxi.w), z3.BitVecVal(items[k], w), acc)
            return SBV(acc)
        acc = items[-1]
        for k in range(n - 2, -1, -1):
            acc = sym.ite(idxi == k, items[k], acc)
        return acc
    for k in range(n):
        if it.path.branch(idxi == k):
            return items[k]
    raise Unsupported("symbolic index fell through")


def _sym_slice_bytes(it, obj, sl):
    """Slice of a fixed-length buffer with symbolic bounds: fork over the concrete possibilities."""
    if sl.st is not None:
        raise Unsupported("symbolic slice step")
    n = len(obj.items)

    def resolve(b, default):
        if b is None:
            return default
        if not is_sym(b):
            return slice(b, None).indices(n)[0] if b is not None else default
        # clamp into [0, n] (negative symbolic bounds are not expected)
        for k in range(0, n + 1):
            if k == n:
                if it.path.branch(b >= n):
                    return n
            elif it.path.branch(b == k):
                return k
        if it.path.branch(b < 0):
            raise Unsupported("negative symbolic slice bound")
        raise Unsupported("symbolic slice bound unresolved")

    lo = resolve(sl.lo, 0)
    hi = resolve(sl.hi, n)
    return BytesVal(obj.items[lo:hi], obj.mutable)


def abytes_getitem(it, obj, idx):
    from .interp import SymSlice
    P = it.path
    if isinstance(idx, (slice, SymSlice)):
        lo = idx.start if isinstance(idx, slice) else idx.lo
        hi = idx.stop if isinstance(idx, slice) else idx.hi
        st = idx.step if isinstance(idx, slice) else idx.st
        if st is not None:
            raise Unsupported("slice step on symbolic buffer")
        lo = 0 if lo is None else lo
        # a slice with concrete bounds has at most hi - lo bytes even when the buffer is shorter
        req = (hi - lo) if (isinstance(lo, int) and isinstance(hi, int) and 0 <= lo <= hi) else None
        # lower bound
        if is_sym(lo) or lo != 0:
            if P.branch(lo < 0):
                raise Unsupported("negative slice bound on symbolic buffer")
            if P.branch(lo > obj.ln):
                lo = obj.ln
        if hi is None:
            hi = obj.ln
        else:
            if P.branch(hi < 0):
                raise Unsupported("negative slice bound on symbolic buffer")
            if P.branch(hi > obj.ln):
                hi = obj.ln
        if P.branch(hi < lo):
            return BytesVal([])
        ln = hi - lo
        if isinstance(ln, int) and isinstance(lo, int) and ln <= 64:
            # concrete-length slice: materialise the bytes
            items = []
            for i in range(ln):
                b = obj.at(lo + i)
                P.assume(byte_range(b))
                items.append(b)
            return BytesVal(items)
        if isinstance(ln, int) and ln <= 64:
            items = []
            for i in range(ln):
                b = obj.at(lo + i)
                P.assume(byte_range(b))
                items.append(b)
            return BytesVal(items)
        if req is not None and req <= 64 and is_sym(ln):
            # clamped by the end of a short buffer: the length is one of 0..req-1, fork on it so that the
            # result has a concrete length (bytes methods such as split/decode need one)
            for k in range(req + 1):
                if P.branch(eq(ln, k)):
                    items = []
                    for i in range(k):
                        b = obj.at(lo + i)
                        P.assume(byte_range(b))
                        items.append(b)
                    return BytesVal(items)
        return ABytes(obj.arr, obj.off + lo, ln, obj.name)
    # single index
    if P.branch(Or(idx >= obj.ln, idx < -obj.ln) if is_sym(idx) or is_sym(obj.ln) else (idx >= obj.ln or idx < -obj.ln)):
        raise it.exc("IndexError", "index out of range")
    if is_sym(idx):
        if P.branch(idx < 0):
            idx = idx + obj.ln
    elif idx < 0:
        idx = idx + obj.ln
    b = obj.at(idx)
    P.assume(byte_range(b))
    return b


def bytes_concat(it, a, b):
    if isinstance(a, ABytes) and isinstance(b, BytesVal) and len(b.items) == 0:
        return a
    if isinstance(b, ABytes) and isinstance(a, BytesVal) and len(a.items) == 0:
        return b
    if isinstance(a, ABytes) and isinstance(b, ABytes) and a.same_base(b):
        if eq(a.off + a.ln, b.off) is True:
            return ABytes(a.arr, a.off, a.ln + b.ln, a.name)
    # general concatenation of symbolic-length buffers: a rope
    return Rope.concat(it, a, b)


class Rope:
    """Concatenation of byte buffers some of which have symbolic length (immutable)."""

    def __init__(self, parts):
        self.parts = parts  # BytesVal | ABytes

    @staticmethod
    def concat(it, a, b):
        pa = a.parts if isinstance(a, Rope) else [a]
        pb = b.parts if isinstance(b, Rope) else [b]
        parts = []
        for p in pa + pb:
            if isinstance(p, (bytes, bytearray)):
                p = BytesVal.of(p)
            if isinstance(p, BytesVal) and not p.items:
                continue
            if parts and isinstance(parts[-1], BytesVal) and isinstance(p, BytesVal):
                parts[-1] = BytesVal(parts[-1].items + p.items)
            elif parts and isinstance(parts[-1], ABytes) and isinstance(p, ABytes) and parts[-1].same_base(p) and eq(parts[-1].off + parts[-1].ln, p.off) is True:
                q = parts[-1]
                parts[-1] = ABytes(q.arr, q.off, q.ln + p.ln, q.name)
            else:
                parts.append(p)
        if len(parts) == 1:
            return parts[0]
        if not parts:
            return BytesVal([])
        return Rope(parts)

    def py_len(self, it):
        acc = 0
        for p in self.parts:
            acc = acc + py_len(it, p)
        return acc

    def py_eq(self, it, other):
        if isinstance(other, Rope) and len(other.parts) == len(self.parts):
            cs = []
            for p, q in zip(self.parts, other.parts):
                if isinstance(p, BytesVal) != isinstance(q, BytesVal):
                    raise Unsupported("rope comparison with different structure")
                cs.append(p.eq(q))
            return And(*cs)
        raise Unsupported("rope comparison with different structure")

    def py_getitem(self, it, idx):
        """rope[n:] / rope[:n] / rope[i] with a concrete bound inside the leading fixed-length part
        (a frame = packed header + payload of symbolic length)."""
        head = self.parts[0]
        from .interp import SymSlice
        if (isinstance(idx, (slice, SymSlice)) and isinstance(head, BytesVal) and len(self.parts) == 2
                and isinstance(self.parts[1], ABytes)):
            # a slice that starts at or after the fixed-length head lies in the symbolic-length tail
            n = len(head.items)
            lo = idx.start if isinstance(idx, slice) else idx.lo
            hi = idx.stop if isinstance(idx, slice) else idx.hi
            st = idx.step if isinstance(idx, slice) else idx.st
            if st is None and lo is not None and ((isinstance(lo, int) and lo >= n) or (is_sym(lo) and not it.path.branch(lo < n))):
                return abytes_getitem(it, self.parts[1], SymSlice(lo - n, None if hi is None else hi - n, None))
        if isinstance(head, BytesVal):
            n = len(head.items)
            if isinstance(idx, slice) and idx.step is None:
                lo, hi = idx.start, idx.stop
                if hi is None and isinstance(lo, int) and 0 <= lo <= n:
                    return Rope.concat(it, BytesVal(head.items[lo:], head.mutable), Rope(self.parts[1:]) if len(self.parts) > 2 else self.parts[1])
                if lo in (None, 0) and isinstance(hi, int) and 0 <= hi <= n:
                    return BytesVal(head.items[:hi], head.mutable)
                if isinstance(lo, int) and isinstance(hi, int) and 0 <= lo <= hi <= n:
                    return BytesVal(head.items[lo:hi], head.mutable)
            if isinstance(idx, int) and not isinstance(idx, bool) and 0 <= idx < n:
                return head.items[idx]
        raise Unsupported("subscript of a concatenation outside its leading fixed-length part")

    def __repr__(self):
        return "Rope(" + " + ".join(map(repr, self.parts)) + ")"


def str_concat(a, b):
    da = a.data.items if isinstance(a, SStr) else list(a.encode("utf-8"))
    db = b.data.items if isinstance(b, SStr) else list(b.encode("utf-8"))
    return SStr(BytesVal(da + db))


def dict_lookup(it, d, key, default):
    """d[key] / d.get(key, default) with a possibly symbolic key."""
    if isinstance(key, SEnum) or is_sym(key):
        cands = [(k, v) for k, v in d.items() if _key_compatible(k, key)]
        conds = [it.py_eq(k, key) for k, _ in cands]
        # merge when all values are members of one enum class or all plain ints / bools
        vals = [v for _, v in cands]
        if cands and all(isinstance(v, EnumMember) for v in vals) and len({id(v.cls) for v in vals}) == 1 and all(isinstance(v.value, int) for v in vals):
            hit = Or(*conds)
            if not it.path.branch(hit):
                if default is MISSING:
                    raise it.exc("KeyError", key)
                return default
            acc = vals[-1].value
            for c, v in reversed(list(zip(conds[:-1], vals[:-1]))):
                acc = sym.ite(c, v.value, acc)
            if isinstance(acc, int):
                return [m for m in vals[0].cls.members.values() if m.value == acc][0]
            return SEnum(vals[0].cls, acc)
        if cands and all(isinstance(v, (int, bool, SInt, SBool)) for v in vals) and (all(isinstance(v, (bool, SBool)) for v in vals) or all(isinstance(v, (int, SInt)) and not isinstance(v, bool) for v in vals)):
            hit = Or(*conds)
            if not it.path.branch(hit):
                if default is MISSING:
                    raise it.exc("KeyError", key)
                return default
            acc = vals[-1]
            for c, v in reversed(list(zip(conds[:-1], vals[:-1]))):
                acc = sym.ite(c, v, acc)
            return acc
        for c, v in zip(conds, vals):
            if it.path.branch(c):
                return v
        if default is MISSING:
            raise it.exc("KeyError", key)
        return default
    # concrete key
    for k, v in d.items():
        if k is key:
            return v
    symkeys = [k for k in d.keys() if is_sym(k) or isinstance(k, SEnum)]
    try:
        if key in d and not symkeys:
            return d[key]
    except TypeError:
        pass
    for k, v in d.items():
        r = it.py_eq(k, key)
        if r is True:
            return v
        if r is not False and it.path.branch(r):
            return v
    if default is MISSING:
        raise it.exc("KeyError", key)
    return default


def _key_compatible(k, key):
    if isinstance(key, SEnum):
        return isinstance(k, (EnumMember, SEnum)) and k.cls is key.cls
    if isinstance(k, (EnumMember, SEnum, str, bytes, tuple)) or k is None:
        return False
    return True


# -------------------------------------------------------------------------------------
# methods of native values


def native_getattr(it, obj, name):
    if isinstance(obj, (bytes, bytearray)):
        obj = BytesVal.of(obj, isinstance(obj, bytearray))
    tbl = None
    if isinstance(obj, list):
        tbl = _LIST
    elif isinstance(obj, dict):
        tbl = _DICT
    elif isinstance(obj, str):
        tbl = _STR
    elif isinstance(obj, SStr):
        tbl = _SSTR
    elif isinstance(obj, BytesVal):
        tbl = _BYTES
    elif isinstance(obj, ABytes):
        tbl = _ABYTES
    elif isinstance(obj, SetVal):
        tbl = _SET
    elif isinstance(obj, DequeVal):
        tbl = _DEQUE
    elif isinstance(obj, tuple):
        tbl = _TUPLE
    elif isinstance(obj, (int, SInt, SBV)) and not isinstance(obj, bool):
        tbl = _INT
    elif isinstance(obj, (float, SReal)):
        tbl = _FLOAT
    elif isinstance(obj, GuardedList):
        tbl = _GLIST
    elif isinstance(obj, Function):
        if name == "__name__":
            return obj.name
        if name == "__qualname__":
            return obj.qualname
    elif isinstance(obj, Opaque):
        # formatted strings etc.: any method yields another opaque value
        return Builtin("opaque." + name, lambda *a, **k: Opaque(obj.what + "." + name))
    pure = _pure_native_method(it, obj, name)
    if tbl is not None and name in tbl:
        f = tbl[name]
        if pure is None:
            return Builtin(f"{type(obj).__name__}.{name}", lambda *a, **k: f(it, obj, *a, **k))

        def both(*a, **k):
            # concrete receiver: concrete arguments take CPython's own answer, symbolic ones the model
            if all(_is_plain(x) for x in list(a) + list(k.values())):
                return pure.fn(*a, **k)
            return f(it, obj, *a, **k)
        return Builtin(f"{type(obj).__name__}.{name}", both)
    if pure is not None:
        return pure
    # A method this interpreter does not model is NOT a missing attribute: only what the real Python type lacks raises
    # AttributeError; anything else is outside the modelled subset (undecided, never a verdict about the code).
    import collections as _c
    real = (list if isinstance(obj, list) else dict if isinstance(obj, dict) else str if isinstance(obj, (str, SStr)) else
            (bytearray if getattr(obj, "mutable", False) else bytes) if isinstance(obj, (BytesVal, ABytes)) else set if isinstance(obj, SetVal) else
            _c.deque if isinstance(obj, DequeVal) else tuple if isinstance(obj, tuple) else bool if isinstance(obj, (bool, SBool)) else
            int if isinstance(obj, (int, SInt, SBV)) else float if isinstance(obj, (float, SReal)) else None)
    if real is not None and hasattr(real, name):
        raise Unsupported(f"{real.__name__}.{name} is not modelled by the interpreter")
    raise it.exc("AttributeError", f"{type(obj).__name__} has no attribute {name}")


_PURE_STR = {"lstrip", "rstrip", "strip", "find", "rfind", "index", "rindex", "count", "partition", "rpartition", "rsplit", "splitlines",
             "ljust", "rjust", "center", "zfill", "title", "capitalize", "casefold", "swapcase", "expandtabs", "removeprefix", "removesuffix",
             "isalpha", "isalnum", "isascii", "isdecimal", "isdigit", "isnumeric", "isspace", "isupper", "islower", "istitle", "isidentifier",
             "isprintable", "lower", "upper", "startswith", "endswith", "replace", "translate"}
_PURE_BYTES = (_PURE_STR - {"casefold", "isdecimal", "isnumeric", "isidentifier", "isprintable"}) | {"hex"}


def _is_plain(a):
    if isinstance(a, BytesVal):
        return a.is_concrete()
    if isinstance(a, tuple):
        return all(_is_plain(x) for x in a)
    return a is None or isinstance(a, (str, int, bytes))


def _pure_native_method(it, obj, name):
    """A pure method of a *concrete* str / bytes value, all arguments concrete: the result is what CPython computes (this
    interpreter runs on CPython; the version difference to the package's interpreter is part of the trusted base).
    Anything symbolic among the receiver or the arguments: not handled here."""
    from .values import PyExc  # noqa: F401
    if isinstance(obj, str) and name in _PURE_STR:
        recv, back = obj, lambda r: r
    elif isinstance(obj, BytesVal) and obj.is_concrete() and name in _PURE_BYTES:
        mut = obj.mutable
        recv = bytearray(obj.to_bytes()) if mut else obj.to_bytes()

        def back(r):
            if isinstance(r, (bytes, bytearray)):
                return BytesVal.of(r, isinstance(r, bytearray))
            if isinstance(r, tuple):
                return tuple(back(x) for x in r)
            if isinstance(r, list):
                return [back(x) for x in r]
            return r
    else:
        return None

    def conv(a):
        if isinstance(a, BytesVal):
            if not a.is_concrete():
                raise Unsupported(f"{type(recv).__name__}.{name} with a symbolic argument")
            return a.to_bytes()
        if isinstance(a, tuple):
            return tuple(conv(x) for x in a)
        if a is None or isinstance(a, (str, int, bytes, dict)):
            return a
        raise Unsupported(f"{type(recv).__name__}.{name} with a symbolic argument")

    def call(*a, **k):
        a = [conv(x) for x in a]
        k = {kk: conv(v) for kk, v in k.items()}
        try:
            return back(getattr(recv, name)(*a, **k))
        except (ValueError, TypeError, OverflowError) as e:
            raise it.exc(type(e).__name__, str(e))
    return Builtin(f"{type(recv).__name__}.{name}", call)


def _list_append(it, l, x):
    l.append(x)


def _list_extend(it, l, xs):
    l.extend(it.iterate(xs))


def _list_pop(it, l, i=-1):
    try:
        return l.pop(i)
    except IndexError:
        raise it.exc("IndexError", "pop from empty list")


def _list_index(it, l, x):
    for i, v in enumerate(l):
        if it.path.branch(it.py_eq(v, x)):
            return i
    raise it.exc("ValueError", "not in list")


def _list_remove(it, l, x):
    i = _list_index(it, l, x)
    del l[i]


_LIST = {
    "append": _list_append,
    "extend": _list_extend,
    "pop": _list_pop,
    "clear": lambda it, l: l.clear(),
    "copy": lambda it, l: list(l),
    "index": _list_index,
    "remove": _list_remove,
    "insert": lambda it, l, i, x: l.insert(i, x),
    "reverse": lambda it, l: l.reverse(),
    "count": lambda it, l, x: sum((sym.ite(it.py_eq(v, x), 1, 0) for v in l), 0),
}

_GLIST = {}

_TUPLE = {
    "index": _list_index,
    "count": lambda it, l, x: sum((sym.ite(it.py_eq(v, x), 1, 0) for v in l), 0),
}


def _dict_get(it, d, k, default=None):
    return dict_lookup(it, d, k, default)


def _dict_pop(it, d, k, default=MISSING):
    if is_sym(k):
        raise Unsupported("dict.pop with symbolic key")
    if k in d:
        return d.pop(k)
    if default is MISSING:
        raise it.exc("KeyError", k)
    return default


def _dict_setdefault(it, d, k, v=None):
    if is_sym(k):
        raise Unsupported("dict.setdefault with symbolic key")
    return d.setdefault(k, v)


_DICT = {
    "get": _dict_get,
    "items": lambda it, d: [(k, v) for k, v in d.items()],
    "keys": lambda it, d: list(d.keys()),
    "values": lambda it, d: list(d.values()),
    "clear": lambda it, d: d.clear(),
    "pop": _dict_pop,
    "update": lambda it, d, o=(), **k: d.update(o, **k),
    "copy": lambda it, d: dict(d),
    "setdefault": _dict_setdefault,
}


def _str_encode(it, s, encoding="utf-8", errors="strict"):
    return BytesVal.of(s.encode(encoding))


def _str_join(it, s, xs):
    items = it.iterate(xs)
    if all(isinstance(i, str) for i in items):
        return s.join(items)
    acc = None
    for i in items:
        if not isinstance(i, (str, SStr)):
            raise it.exc("TypeError", "sequence item: expected str")
        acc = i if acc is None else str_concat(str_concat(acc, s), i)
    return acc if acc is not None else ""


def _str_split(it, s, sep=None, maxsplit=-1):
    return s.split(sep, maxsplit)


def _str_format(it, s, *a, **k):
    if any(is_sym(x) or not isinstance(x, (int, str, float, bool, type(None))) for x in list(a) + list(k.values())):
        return Opaque("str.format")
    return s.format(*a, **k)


_STR = {
    "encode": _str_encode,
    "join": _str_join,
    "split": _str_split,
    "format": _str_format,
    "strip": lambda it, s, c=None: s.strip(c),
    "lower": lambda it, s: s.lower(),
    "upper": lambda it, s: s.upper(),
    "startswith": lambda it, s, p: s.startswith(p),
    "endswith": lambda it, s, p: s.endswith(p),
    "replace": lambda it, s, a, b: s.replace(a, b),
    "isdigit": lambda it, s: s.isdigit(),
}


def _sstr_encode(it, s, encoding="utf-8", errors="strict"):
    if encoding.lower().replace("_", "-") not in ("utf-8", "utf8"):
        raise Unsupported("non-UTF-8 encode of a symbolic str")
    return BytesVal(list(s.data.items))


def _sstr_split(it, s, sep=None, maxsplit=-1):
    if not isinstance(sep, str):
        raise Unsupported("symbolic str.split without a concrete separator")
    parts = _bytes_split(it, s.data, BytesVal.of(sep.encode("utf-8")), maxsplit)
    return [SStr(p) for p in parts]


_SSTR = {
    "encode": _sstr_encode,
    "split": _sstr_split,
}


def _bytes_decode(it, b, encoding="utf-8", errors="strict"):
    if encoding.lower().replace("_", "-") not in ("utf-8", "utf8"):
        raise Unsupported("non-UTF-8 decode")
    if isinstance(b, BytesVal) and b.is_concrete():
        try:
            return b.to_bytes().decode("utf-8", errors)
        except UnicodeDecodeError:
            raise it.exc("UnicodeDecodeError", "invalid utf-8")
    valid = utf8_valid(b)
    if not it.path.branch(valid):
        if errors != "strict":
            # errors="replace"/"ignore": no exception, but the text is no longer the text of these bytes
            return Opaque("lossy-decoded text")
        raise it.exc("UnicodeDecodeError", "invalid utf-8")
    if isinstance(b, ABytes):
        return SStrA(b)
    return SStr(BytesVal(list(b.items)))


class SStrA:
    """A symbolic str of symbolic length (UTF-8 bytes are a view of a symbolic buffer)."""

    def __init__(self, view):
        self.view = view

    def py_eq(self, it, o):
        if isinstance(o, SStrA):
            return self.view.eq(o.view)
        if isinstance(o, str):
            return self.view.eq(BytesVal.of(o.encode("utf-8")))
        if isinstance(o, SStr):
            return self.view.eq(o.data)
        return False

    def py_getattr(self, it, name):
        if name == "encode":
            return Builtin("SStrA.encode", lambda *a, **k: self.view)
        if name == "split":
            def split(sep=None, maxsplit=-1):
                if not isinstance(sep, str) or len(sep.encode("utf-8")) != 1:
                    raise Unsupported("split of a symbolic-length str with this separator")
                return SplitList(self.view, sep, maxsplit)
            return Builtin("SStrA.split", split)
        if hasattr(str, name):
            raise Unsupported(f"str.{name} on a symbolic-length str is not modelled")
        raise it.exc("AttributeError", name)

    def py_truth(self, it):
        return self.view.ln > 0

    def __repr__(self):
        return f"SStrA({self.view})"


class SplitList:
    """text.split(sep) of a symbolic-length text: the list of its maximal sep-free pieces, kept abstract (the text's
    view, the separator and maxsplit identify it).  It can be stored and compared, not indexed or iterated."""

    def __init__(self, view, sep, maxsplit):
        self.view, self.sep, self.maxsplit = view, sep, maxsplit

    def py_class(self, it):
        return it.builtins["list"]

    def py_eq(self, it, o):
        if isinstance(o, SplitList):
            return And(self.view.eq(o.view), self.sep == o.sep, self.maxsplit == o.maxsplit)
        raise Unsupported("comparison of an abstract split result with a concrete list")

    def py_truth(self, it):
        return True   # str.split(sep) never returns an empty list

    def __repr__(self):
        return f"SplitList({self.view!r}, {self.sep!r})"


# valid_utf8 is uninterpreted over the byte sequence; for fixed-length sequences we build
# the exact UTF-8 automaton condition so that both branches are meaningful.


def utf8_valid(b):
    if isinstance(b, ABytes):
        f = z3.Function("valid_utf8", z3.ArraySort(z3.IntSort(), z3.IntSort()), z3.IntSort(), z3.IntSort(), z3.BoolSort())
        return mkbool(f(b.arr, sym.int_t(b.off), sym.int_t(b.ln)))
    items = b.items
    n = len(items)
    # ok[i] == items[i:] is valid UTF-8 (exact definition incl. overlong / surrogate exclusions)
    ok = [None] * (n + 1)
    ok[n] = True

    def rng(x, lo, hi):
        return And(x >= lo, x <= hi)

    for i in range(n - 1, -1, -1):
        b0 = items[i]
        alts = [And(b0 <= 0x7F, ok[i + 1])]
        if i + 1 < n:
            alts.append(And(rng(b0, 0xC2, 0xDF), rng(items[i + 1], 0x80, 0xBF), ok[i + 2]))
        if i + 2 < n:
            b1, b2 = items[i + 1], items[i + 2]
            t = rng(b2, 0x80, 0xBF)
            alts.append(And(eq(b0, 0xE0), rng(b1, 0xA0, 0xBF), t, ok[i + 3]))
            alts.append(And(Or(rng(b0, 0xE1, 0xEC), rng(b0, 0xEE, 0xEF)), rng(b1, 0x80, 0xBF), t, ok[i + 3]))
            alts.append(And(eq(b0, 0xED), rng(b1, 0x80, 0x9F), t, ok[i + 3]))
        if i + 3 < n:
            b1, b2, b3 = items[i + 1], items[i + 2], items[i + 3]
            t = And(rng(b2, 0x80, 0xBF), rng(b3, 0x80, 0xBF))
            alts.append(And(eq(b0, 0xF0), rng(b1, 0x90, 0xBF), t, ok[i + 4]))
            alts.append(And(rng(b0, 0xF1, 0xF3), rng(b1, 0x80, 0xBF), t, ok[i + 4]))
            alts.append(And(eq(b0, 0xF4), rng(b1, 0x80, 0x8F), t, ok[i + 4]))
        ok[i] = Or(*alts)
    return ok[0]


def _bytes_split(it, b, sep=None, maxsplit=-1):
    if isinstance(b, BytesVal) and b.is_concrete() and isinstance(sep, BytesVal) and sep.is_concrete():
        return [BytesVal.of(p) for p in b.to_bytes().split(sep.to_bytes(), maxsplit)]
    if sep is None or not isinstance(sep, BytesVal) or not sep.is_concrete() or len(sep.items) != 1:
        raise Unsupported("bytes.split with a symbolic / multi-byte separator")
    s = sep.items[0]
    parts = []
    cur = []
    count = 0
    items = b.items
    i = 0
    n = len(items)
    while i < n:
        if (maxsplit < 0 or count < maxsplit) and it.path.branch(eq(items[i], s)):
            parts.append(BytesVal(cur))
            cur = []
            count += 1
        else:
            cur.append(items[i])
        i += 1
    parts.append(BytesVal(cur))
    return parts


def _bytes_partition(it, b, sep, right=False):
    """bytes.partition / rpartition with a concrete one-byte separator (forks on the position of the first / last hit)."""
    if not isinstance(sep, BytesVal) or not sep.is_concrete() or len(sep.items) != 1:
        raise Unsupported("bytes.partition with a symbolic / multi-byte separator")
    s = sep.items[0]
    items = b.items
    order = range(len(items) - 1, -1, -1) if right else range(len(items))
    for i in order:
        if it.path.branch(eq(items[i], s)):
            return (BytesVal(items[:i], b.mutable), BytesVal([s], b.mutable), BytesVal(items[i + 1:], b.mutable))
    empty = BytesVal([], b.mutable)
    return (empty, BytesVal([], b.mutable), BytesVal(list(items), b.mutable)) if right else (BytesVal(list(items), b.mutable), empty, BytesVal([], b.mutable))


def _bytes_find(it, b, sub, *a):
    if a or not isinstance(sub, BytesVal) or not sub.is_concrete() or len(sub.items) != 1:
        raise Unsupported("bytes.find with bounds / a symbolic or multi-byte pattern")
    for i, x in enumerate(b.items):
        if it.path.branch(eq(x, sub.items[0])):
            return i
    return -1


def _bytes_hex(it, b, *a, **k):
    if b.is_concrete():
        return b.to_bytes().hex(*a, **k)
    return Opaque("hex")


def _bytes_extend(it, b, xs):
    if not b.mutable:
        raise it.exc("AttributeError", "'bytes' object has no attribute 'extend'")
    if isinstance(xs, ABytes) or isinstance(xs, Rope):
        # the bytearray becomes a write-only accumulator (used for log messages): any later read is unsupported
        b.items.append(_OpaqueTail(xs))
        return
    if isinstance(xs, BytesVal):
        # the items of a bytes / bytearray value are bytes already (representation invariant of
        # BytesVal: every constructor checks or assumes 0..255): no range check, no solver call
        b.items.extend(xs.items)
        return
    items = it.iterate(xs)
    for i in items:
        if isinstance(i, int) and not 0 <= i <= 255:
            raise it.exc("ValueError", "byte must be in range(0, 256)")
        if is_sym(i) and not isinstance(i, SBV):
            if it.path.branch(Not(And(i >= 0, i <= 255))):
                raise it.exc("ValueError", "byte must be in range(0, 256)")
    b.items.extend(items)


class _OpaqueTail:
    """Marker inside a bytearray that was extended by a symbolic-length buffer."""

    def __init__(self, part):
        self.part = part

    def __getattr__(self, name):
        raise Unsupported("read of a bytearray that was extended by a symbolic-length buffer")


def _bytes_append(it, b, x):
    if not b.mutable:
        raise it.exc("AttributeError", "'bytes' object has no attribute 'append'")
    if isinstance(x, int):
        if not 0 <= x <= 255:
            raise it.exc("ValueError", "byte must be in range(0, 256)")
    elif is_sym(x):
        if it.path.branch(Not(And(x >= 0, x <= 255))):
            raise it.exc("ValueError", "byte must be in range(0, 256)")
    b.items.append(x)


def _bytes_strip(it, b, chars=None, left=True, right=True):
    """bytes.strip / lstrip / rstrip.  Symbolic content with a concrete set of bytes to strip: forks on how many
    bytes go at each end (at most len + 1 paths per end)."""
    if chars is not None and not (isinstance(chars, BytesVal) and chars.is_concrete()):
        raise Unsupported("bytes.strip with a symbolic set of bytes")
    cs = sorted(set(chars.to_bytes())) if chars is not None else sorted(set(b" \t\n\r\x0b\x0c"))
    if b.is_concrete():
        raw = b.to_bytes()
        arg = bytes(cs)
        out = raw.strip(arg) if left and right else raw.lstrip(arg) if left else raw.rstrip(arg)
        return BytesVal.of(out) if not b.mutable else BytesVal(list(out), True)
    items = list(b.items)

    def stripped(x):
        return Or(*[eq(x, c) for c in cs]) if cs else False
    if right:
        while items and it.path.branch(stripped(items[-1])):
            items.pop()
    if left:
        while items and it.path.branch(stripped(items[0])):
            items.pop(0)
    return BytesVal(items, b.mutable)


def _bytes_index(it, b, sub, *a):
    r = _bytes_find(it, b, sub, *a)
    if r == -1:
        raise it.exc("ValueError", "subsection not found")
    return r


def _bytes_rfind(it, b, sub, *a):
    if a or not isinstance(sub, BytesVal) or not sub.is_concrete() or len(sub.items) != 1:
        raise Unsupported("bytes.rfind with bounds / a symbolic or multi-byte pattern")
    for i in range(len(b.items) - 1, -1, -1):
        if it.path.branch(eq(b.items[i], sub.items[0])):
            return i
    return -1


def _bytes_count(it, b, sub, *a):
    if a or not isinstance(sub, BytesVal) or not sub.is_concrete() or len(sub.items) != 1:
        raise Unsupported("bytes.count with bounds / a symbolic or multi-byte pattern")
    return sum((sym.ite(eq(x, sub.items[0]), 1, 0) for x in b.items), 0)


def _bytes_endswith(it, b, p):
    if not isinstance(p, BytesVal):
        raise Unsupported("bytes.endswith with a tuple / symbolic-length suffix")
    n = len(p.items)
    if n > len(b.items):
        return False
    return And(*[eq(x, y) for x, y in zip(b.items[len(b.items) - n:], p.items)]) if n else True


def _bytes_just(it, b, width, fill=None, left=True):
    if not isinstance(width, int):
        raise Unsupported("bytes.ljust / rjust with a symbolic width")
    f = 0x20 if fill is None else fill.items[0]
    pad = [f] * max(0, width - len(b.items))
    return BytesVal(list(b.items) + pad if left else pad + list(b.items), b.mutable)


def _bytes_replace1(it, b, old, new, count=-1):
    """replace of one byte by one byte (the only shape that keeps the length concrete)."""
    if count != -1 or not all(isinstance(x, BytesVal) and x.is_concrete() and len(x.items) == 1 for x in (old, new)):
        raise Unsupported("bytes.replace other than one concrete byte by one concrete byte")
    o, n = old.items[0], new.items[0]
    return BytesVal([sym.ite(eq(x, o), n, x) if is_sym(x) else (n if x == o else x) for x in b.items], b.mutable)


def _bytes_join(it, b, parts):
    out = []
    first = True
    for p in it.iterate(parts):
        if isinstance(p, (bytes, bytearray)):
            p = BytesVal.of(p)
        if not isinstance(p, BytesVal):
            raise Unsupported("bytes.join of symbolic-length parts")
        if not first:
            out.extend(b.items)
        out.extend(p.items)
        first = False
    return BytesVal(out, b.mutable)


def _bytes_remove_affix(it, b, p, prefix=True):
    hit = _bytes_startswith(it, b, p) if prefix else _bytes_endswith(it, b, p)
    n = len(p.items)
    if hit is False or not it.path.branch(hit):
        return BytesVal(list(b.items), b.mutable)
    return BytesVal(b.items[n:] if prefix else b.items[:len(b.items) - n], b.mutable)


def _bytes_startswith(it, b, p):
    if not isinstance(p, BytesVal):
        raise Unsupported("bytes.startswith with a tuple / symbolic-length prefix")
    if len(p.items) > len(b.items):
        return False
    return And(*[eq(x, y) for x, y in zip(b.items, p.items)]) if p.items else True


def _bytes_pop(it, b, i=-1):
    if not b.mutable:
        raise it.exc("AttributeError", "'bytes' object has no attribute 'pop'")
    if not isinstance(i, int):
        raise Unsupported("bytearray.pop with a symbolic index")
    try:
        return b.items.pop(i)
    except IndexError:
        raise it.exc("IndexError", "pop from empty bytearray")


def _bytes_insert(it, b, i, x):
    if not b.mutable:
        raise it.exc("AttributeError", "'bytes' object has no attribute 'insert'")
    if not isinstance(i, int):
        raise Unsupported("bytearray.insert with a symbolic index")
    tmp = BytesVal([], True)
    _bytes_append(it, tmp, x)
    b.items.insert(i, tmp.items[0])


def _bytes_reverse(it, b):
    if not b.mutable:
        raise it.exc("AttributeError", "'bytes' object has no attribute 'reverse'")
    b.items.reverse()


_BYTES = {
    "index": _bytes_index,
    "rfind": _bytes_rfind,
    "count": _bytes_count,
    "endswith": _bytes_endswith,
    "ljust": lambda it, b, w, f=None: _bytes_just(it, b, w, f, left=True),
    "rjust": lambda it, b, w, f=None: _bytes_just(it, b, w, f, left=False),
    "replace": _bytes_replace1,
    "join": _bytes_join,
    "removeprefix": lambda it, b, p: _bytes_remove_affix(it, b, p, True),
    "removesuffix": lambda it, b, p: _bytes_remove_affix(it, b, p, False),
    "pop": _bytes_pop,
    "insert": _bytes_insert,
    "reverse": _bytes_reverse,
    "decode": _bytes_decode,
    "split": _bytes_split,
    "partition": _bytes_partition,
    "rpartition": lambda it, b, sep: _bytes_partition(it, b, sep, right=True),
    "find": _bytes_find,
    "hex": _bytes_hex,
    "extend": _bytes_extend,
    "append": _bytes_append,
    "strip": _bytes_strip,
    "lstrip": lambda it, b, chars=None: _bytes_strip(it, b, chars, left=True, right=False),
    "rstrip": lambda it, b, chars=None: _bytes_strip(it, b, chars, left=False, right=True),
    "startswith": _bytes_startswith,
    "copy": lambda it, b: BytesVal(list(b.items), b.mutable),
    "clear": lambda it, b: b.items.clear(),
}

_ABYTES = {
    "decode": _bytes_decode,
    "hex": lambda it, b, *a, **k: Opaque("hex"),
}


def _int_to_bytes(it, x, length=1, byteorder="big", *, signed=False):
    if signed:
        raise Unsupported("signed to_bytes")
    if not is_sym(x):
        try:
            return BytesVal.of(x.to_bytes(length, byteorder))
        except OverflowError:
            raise it.exc("OverflowError", "int too big to convert")
    if isinstance(x, SBV):
        if x.w > 8 * length:
            if it.path.branch(x.to_int() >= (1 << (8 * length))):
                raise it.exc("OverflowError", "int too big to convert")
        t = x._ext(8 * length) if x.w <= 8 * length else z3.Extract(8 * length - 1, 0, x.t)
        items = [SBV(z3.simplify(z3.Extract(8 * i + 7, 8 * i, t))) for i in range(length)]
    else:
        if it.path.branch(Or(x < 0, x >= (1 << (8 * length)))):
            raise it.exc("OverflowError", "int too big to convert")
        items = [(x >> (8 * i)) & 0xFF for i in range(length)]
    if byteorder == "big":
        items.reverse()
    return BytesVal(items)


_INT = {
    "to_bytes": _int_to_bytes,
    "bit_length": lambda it, x: x.bit_length(),
}

_FLOAT = {
    "is_integer": lambda it, x: x.is_integer(),
}


def _hashable(it, x):
    from .values import unhashable_dataclass
    if unhashable_dataclass(x):
        raise it.exc("TypeError", f"unhashable type: '{x.cls.name}'")
    return x


def _set_union(it, s, *others):
    out = SetVal(s.items)
    for o in others:
        for x in it.iterate(o):
            out.add(x)
    return out


_SET = {
    "add": lambda it, s, x: s.add(_hashable(it, x)),
    "discard": lambda it, s, x: s.discard(x),
    "remove": lambda it, s, x: s.discard(x) if x in s else (_ for _ in ()).throw(it.exc("KeyError", x)),
    "union": _set_union,
    "clear": lambda it, s: s.items.clear(),
    "copy": lambda it, s: SetVal(s.items),
    "update": lambda it, s, *o: [s.add(x) for oo in o for x in it.iterate(oo)] and None,
}


def _deque_popleft(it, d):
    if not d.items:
        raise it.exc("IndexError", "pop from an empty deque")
    return d.items.pop(0)


def _deque_pop(it, d):
    if not d.items:
        raise it.exc("IndexError", "pop from an empty deque")
    return d.items.pop()


_DEQUE = {
    "append": lambda it, d, x: d.items.append(x),
    "appendleft": lambda it, d, x: d.items.insert(0, x),
    "popleft": _deque_popleft,
    "pop": _deque_pop,
    "clear": lambda it, d: d.items.clear(),
    "extend": lambda it, d, xs: d.items.extend(it.iterate(xs)),
}
