"""Models of the standard-library modules imported by /repo (struct, enum, dataclasses, typing,
logging, contextlib, collections, datetime, functools).  asyncio lives in aio.py."""
from __future__ import annotations

from pyvc.values import unmodelled as _unmodelled  # noqa: E402
import re

import z3

from . import sym
from .sym import SBool, SInt, SBV, SReal, And, Or, Not, eq, is_sym
from .values import (Unsupported, PyExc, MISSING, Class, TypeDummy, Instance, EnumMember, SEnum,
                     all_dc_fields, Function, Builtin, BoundMethod, Property, StaticMethod,
                     ClassMethod, Module, BytesVal, ABytes, SStr, DequeVal, SetVal, Opaque, byte_range)
from .pybuiltins import py_len, abytes_getitem

# -------------------------------------------------------------------------------------
# struct

_CODES = {"B": (1, False), "H": (2, False), "I": (4, False), "L": (4, False), "Q": (8, False),
          "b": (1, True), "h": (2, True), "i": (4, True), "l": (4, True), "q": (8, True)}


class StructVal:
    def __init__(self, fmt):
        self.format = fmt
        order = "@"
        f = fmt
        if f and f[0] in "@=<>!":
            order = f[0]
            f = f[1:]
        if order in "@=":
            raise Unsupported("native struct byte order / alignment")
        self.big = order in ">!"
        self.fields = []  # (kind, size) kind in int|bytes|pad
        for cnt, code in re.findall(r"(\d*)([a-zA-Z?])", f.replace(" ", "")):
            n = int(cnt) if cnt else 1
            if code == "x":
                self.fields.append(("pad", n, False))
            elif code == "s":
                self.fields.append(("bytes", n, False))
            elif code in _CODES:
                sz, signed = _CODES[code]
                for _ in range(n):
                    self.fields.append(("int", sz, signed))
            else:
                raise Unsupported(f"struct format code {code}")
        self.size = sum(sz for _, sz, _ in self.fields)
        self.nvalues = sum(1 for k, _, _ in self.fields if k != "pad")

    def __repr__(self):
        return f"Struct({self.format!r})"

    def py_getattr(self, it, name):
        if name == "size":
            return self.size
        if name == "format":
            return self.format
        if name in ("pack", "unpack", "unpack_from", "pack_into"):
            return Builtin("Struct." + name, lambda *a, **k: getattr(self, name)(it, *a, **k))
        raise _unmodelled(self, name)

    # -- pack
    def pack(self, it, *vals):
        if len(vals) != self.nvalues:
            raise it.exc("StructError", f"pack expected {self.nvalues} items for packing (got {len(vals)})")
        out = []
        vi = 0
        for kind, sz, signed in self.fields:
            if kind == "pad":
                out.extend([0] * sz)
                continue
            v = vals[vi]
            vi += 1
            if kind == "bytes":
                if isinstance(v, (bytes, bytearray)):
                    v = BytesVal.of(v)
                if not isinstance(v, BytesVal):
                    raise it.exc("StructError", "argument for 's' must be a bytes object")
                items = list(v.items[:sz])
                items += [0] * (sz - len(items))
                out.extend(items)
                continue
            # integer field
            if isinstance(v, (SEnum, EnumMember, Instance, str, BytesVal)) or v is None or isinstance(v, (float, SReal)):
                raise it.exc("StructError", "required argument is not an integer")
            lo, hi = (-(1 << (8 * sz - 1)), (1 << (8 * sz - 1)) - 1) if signed else (0, (1 << (8 * sz)) - 1)
            if isinstance(v, (bool, SBool)):
                v = sym.ite(v, 1, 0) if isinstance(v, SBool) else int(v)
            if isinstance(v, SBV) and not signed and v.w <= 8 * sz:
                # a bit-vector that fits the field: its bytes are bit slices (no range check needed)
                t = v._ext(8 * sz)
                bs = [SBV(z3.simplify(z3.Extract(8 * i + 7, 8 * i, t))) for i in range(sz)]
                if self.big:
                    bs.reverse()
                out.extend(bs)
                continue
            if isinstance(v, SBV):
                v = v.to_int()
            if is_sym(v):
                if it.path.branch(Or(v < lo, v > hi)):
                    raise it.exc("StructError", "integer out of range for format")
            elif not lo <= v <= hi:
                raise it.exc("StructError", "integer out of range for format")
            if signed:
                # two's complement of a value already known to be inside [lo, hi]
                v = v % (1 << (8 * sz)) if not is_sym(v) else sym.ite(v < 0, v + (1 << (8 * sz)), v)
            bs = [(v >> (8 * i)) & 0xFF for i in range(sz)]
            if self.big:
                bs.reverse()
            out.extend(bs)
        return BytesVal(out)

    def pack_into(self, it, buf, offset, *vals):
        data = self.pack(it, *vals)
        if not isinstance(buf, BytesVal) or not buf.mutable:
            raise it.exc("TypeError", "pack_into requires a writable buffer")
        if is_sym(offset):
            # fork over the possible offsets
            n = len(buf.items)
            for k in range(0, n - self.size + 1):
                if it.path.branch(offset == k):
                    offset = k
                    break
            else:
                raise it.exc("StructError", "pack_into offset out of range")
        if offset < 0:
            offset += len(buf.items)
        if offset < 0 or offset + self.size > len(buf.items):
            raise it.exc("StructError", "pack_into requires a buffer of at least that size")
        buf.items[offset:offset + self.size] = data.items

    # -- unpack
    def unpack(self, it, buf):
        n = py_len(it, buf)
        if it.path.branch(Not(eq(n, self.size))):
            raise it.exc("StructError", f"unpack requires a buffer of {self.size} bytes")
        return self.unpack_from(it, buf, 0)

    def unpack_from(self, it, buf, offset=0):
        if isinstance(buf, (bytes, bytearray)):
            buf = BytesVal.of(buf)
        from .pybuiltins import Rope
        if (isinstance(buf, Rope) and isinstance(buf.parts[0], BytesVal) and isinstance(offset, int)
                and 0 <= offset and offset + self.size <= len(buf.parts[0].items)):
            # a concatenation whose leading fixed-length part holds the whole struct
            buf = buf.parts[0]
        n = py_len(it, buf)
        if is_sym(offset) and isinstance(buf, BytesVal):
            for k in range(0, len(buf.items) + 1):
                if it.path.branch(offset == k):
                    offset = k
                    break
            else:
                if it.path.branch(offset < 0):
                    raise Unsupported("negative symbolic struct offset")
                raise it.exc("StructError", "offset out of range")
        if not is_sym(offset) and offset < 0:
            raise Unsupported("negative struct offset")
        short = (n - offset) < self.size
        if it.path.branch(short):
            raise it.exc("StructError", f"unpack_from requires a buffer of at least {self.size} bytes")
        if isinstance(buf, BytesVal):
            raw = buf.items[offset:offset + self.size]
        elif isinstance(buf, ABytes):
            raw = []
            for i in range(self.size):
                b = buf.at(offset + i)
                it.path.assume(byte_range(b))
                raw.append(b)
        else:
            raise Unsupported(f"unpack_from on {type(buf).__name__}")
        out = []
        p = 0
        for kind, sz, signed in self.fields:
            chunk = raw[p:p + sz]
            p += sz
            if kind == "pad":
                continue
            if kind == "bytes":
                out.append(BytesVal(chunk))
                continue
            bs = chunk if self.big else list(reversed(chunk))
            if signed:
                acc = 0
                for b in bs:
                    if isinstance(b, SBV):
                        b = b.to_int()
                    acc = acc * 256 + b
                half = 1 << (8 * sz - 1)
                out.append((acc - 2 * half if acc >= half else acc) if not is_sym(acc) else sym.ite(acc >= half, acc - 2 * half, acc))
                continue
            if bs and all(isinstance(b, SBV) and b.w <= 8 for b in bs):
                # all bytes are bit-vectors: keep the value a bit-vector (concatenation, high byte first)
                ts = [b._ext(8) for b in bs]
                out.append(SBV(z3.simplify(ts[0] if len(ts) == 1 else z3.Concat(*ts))))
                continue
            acc = 0
            for b in bs:
                if isinstance(b, SBV):
                    b = b.to_int()
                acc = acc * 256 + b
            out.append(acc)
        return tuple(out)


def make_struct_module(it_builtins):
    m = Module("struct")
    m.ns["Struct"] = Builtin("struct.Struct", lambda fmt: StructVal(fmt))
    m.ns["error"] = it_builtins["StructError"]
    m.ns["pack"] = Builtin("struct.pack", lambda it, fmt, *a: StructVal(fmt).pack(it, *a), True)
    m.ns["unpack"] = Builtin("struct.unpack", lambda it, fmt, b: StructVal(fmt).unpack(it, b), True)
    m.ns["unpack_from"] = Builtin("struct.unpack_from", lambda it, fmt, b, offset=0: StructVal(fmt).unpack_from(it, b, offset), True)
    m.ns["calcsize"] = Builtin("struct.calcsize", lambda fmt: StructVal(fmt).size)
    return m


# -------------------------------------------------------------------------------------
# enum


class AutoValue:
    pass


def make_enum_module(builtins):
    m = Module("enum")
    enum_cls = Class("Enum", [], {}, module="enum")
    enum_cls.is_enum = True
    m.ns["Enum"] = enum_cls
    intenum = Class("IntEnum", [enum_cls], {}, module="enum")
    intenum.is_enum = True
    m.ns["IntEnum"] = intenum
    m.ns["auto"] = Builtin("enum.auto", lambda: AutoValue())
    m.ns["unique"] = Builtin("enum.unique", lambda c: c)
    return m


def finish_enum(it, cls):
    """Turn the plain attributes of an Enum subclass body into members."""
    last = 0
    for name, v in list(cls.ns.items()):
        if name.startswith("_") or isinstance(v, (Function, Property, StaticMethod, ClassMethod, Builtin)):
            continue
        if isinstance(v, AutoValue):
            v = last + 1
        if isinstance(v, int):
            last = v
        # aliases: same value -> same member
        alias = None
        for mname, mem in cls.members.items():
            if type(mem.value) is type(v) and mem.value == v:
                alias = mem
        mem = alias or EnumMember(cls, name, v)
        cls.members[name] = mem
        cls.ns[name] = mem


# -------------------------------------------------------------------------------------
# dataclasses


class FieldSpec:
    def __init__(self, default=MISSING, default_factory=MISSING):
        self.default = default
        self.default_factory = default_factory


def _dataclass_apply(it, cls, frozen=False, eq_=True, **_kw):
    cls.is_dataclass = True
    cls.dc_frozen = frozen
    cls.dc_eq = eq_
    cls.dc_unsafe_hash = bool(_kw.get("unsafe_hash", False))
    fields = []
    for name in getattr(cls, "annotated", []):
        d = cls.ns.get(name, MISSING)
        if isinstance(d, (Function, Property)):
            d = MISSING
        if isinstance(d, FieldSpec):
            fields.append((name, d.default, d.default_factory))
            if d.default is MISSING:
                cls.ns.pop(name, None)
            else:
                cls.ns[name] = d.default
        else:
            fields.append((name, d, MISSING))
    cls.dc_fields = fields

    def dc_init(it2, inst, *args, **kwargs):
        fl = all_dc_fields(cls)
        if len(args) > len(fl):
            raise it2.exc("TypeError", f"{cls.name}.__init__() takes {len(fl) + 1} positional arguments but {len(args) + 1} were given")
        kwargs = dict(kwargs)
        for i, (name, default, factory) in enumerate(fl):
            if i < len(args):
                if name in kwargs:
                    raise it2.exc("TypeError", f"multiple values for argument {name}")
                v = args[i]
            elif name in kwargs:
                v = kwargs.pop(name)
            elif default is not MISSING:
                v = default
            elif factory is not MISSING:
                v = it2.call(factory, [], {})
            else:
                raise it2.exc("TypeError", f"{cls.name}.__init__() missing required argument: {name!r}")
            inst.attrs[name] = v
        if kwargs:
            raise it2.exc("TypeError", f"{cls.name}.__init__() got an unexpected keyword argument {list(kwargs)[0]!r}")
        post = cls.lookup("__post_init__")
        if post is not MISSING:
            it2.call(BoundMethod(post, inst), [], {})

    if "__init__" not in cls.ns:
        cls.ns["__init__"] = Builtin(cls.name + ".__init__", dc_init, True)
    return cls


def make_dataclasses_module():
    m = Module("dataclasses")

    def dataclass(it, cls=None, **kw):
        if cls is None:
            return Builtin("dataclass(...)", lambda it2, c: _dataclass_apply(it2, c, **{("eq_" if k == "eq" else k): v for k, v in kw.items()}), True)
        return _dataclass_apply(it, cls)

    m.ns["dataclass"] = Builtin("dataclass", dataclass, True)
    m.ns["field"] = Builtin("field", lambda default=MISSING, default_factory=MISSING, **k: FieldSpec(default, default_factory))
    m.ns["replace"] = Builtin("replace", _dc_replace, True)
    return m


def _dc_replace(it, obj, **changes):
    kw = {n: obj.attrs[n] for n, _, _ in all_dc_fields(obj.cls)}
    kw.update(changes)
    return it.instantiate(obj.cls, [], kw)


# -------------------------------------------------------------------------------------
# typing & friends


def make_typing_module(name="typing"):
    m = Module(name)
    d = TypeDummy()
    for n in ("Any", "Generic", "Optional", "Protocol", "TypeVar", "Literal", "Union", "Callable", "Awaitable",
              "Coroutine", "Iterable", "Mapping", "Sequence", "Iterator", "cast", "Final", "ClassVar",
              "TypeAlias", "NamedTuple", "Self", "Never", "MutableMapping", "MutableSequence", "Set", "Hashable",
              "Collection", "Generator", "AsyncIterator", "runtime_checkable", "TYPE_CHECKING", "overload"):
        m.ns[n] = d
    m.ns["TYPE_CHECKING"] = False
    m.ns["cast"] = Builtin("cast", lambda t, v: v)
    m.ns["override"] = Builtin("override", lambda f: f)
    m.ns["runtime_checkable"] = Builtin("runtime_checkable", lambda c: c)
    # Protocol / Generic as base classes: plain empty classes
    m.ns["Protocol"] = Class("Protocol", [], {}, module="typing")
    m.ns["Generic"] = Class("Generic", [], {}, module="typing")
    nt = Class("NamedTuple", [], {}, module="typing")
    nt.is_namedtuple_base = True
    m.ns["NamedTuple"] = nt
    return m


# -------------------------------------------------------------------------------------
# logging


class LoggerModel:
    """Every logging call is a no-op; isEnabledFor is nondeterministic (both branches run)."""

    def __init__(self, name="?"):
        self.name = name

    def py_getattr(self, it, name):
        if name in ("debug", "info", "warning", "error", "exception", "critical", "log", "setLevel", "addHandler"):
            return Builtin("logger." + name, lambda *a, **k: None)
        if name == "isEnabledFor":
            return Builtin("logger.isEnabledFor", lambda it2, lvl: it2.path.choose(2, "isEnabledFor") == 0, True)
        if name == "logger":
            return self
        raise _unmodelled(self, name)


def make_logging_module():
    m = Module("logging")
    m.ns["getLogger"] = Builtin("getLogger", lambda name=None: LoggerModel(name))
    for i, n in enumerate(("NOTSET", "DEBUG", "INFO", "WARNING", "ERROR", "CRITICAL")):
        m.ns[n] = i * 10
    m.ns["Logger"] = Class("Logger", [], {}, module="logging")
    m.ns["LoggerAdapter"] = Class("LoggerAdapter", [], {}, module="logging")
    return m


def make_repo_log_module():
    """pyairtouch.comms.log: formatting-only logger adapter; modelled as the no-op logger."""
    m = Module("pyairtouch.comms.log")
    m.ns["getLogger"] = Builtin("getLogger", lambda name=None: LoggerModel(name))
    m.ns["CommsLogger"] = Class("CommsLogger", [], {}, module="pyairtouch.comms.log")
    return m


# -------------------------------------------------------------------------------------
# contextlib


class Suppress:
    def __init__(self, types):
        self.types = types

    def cm_enter(self, it):
        return None

    def cm_exit(self, it, exc):
        if exc is None:
            return False
        return it.exc_matches(exc, tuple(self.types))


def make_contextlib_module():
    m = Module("contextlib")
    m.ns["suppress"] = Builtin("suppress", lambda *types: Suppress(types))
    return m


# -------------------------------------------------------------------------------------
# collections / functools


def make_collections_module():
    m = Module("collections")
    m.ns["deque"] = Builtin("deque", lambda it, items=(), maxlen=None: DequeVal(it.iterate(items)), True)
    abc = make_typing_module("collections.abc")
    m.ns["abc"] = abc
    return m, abc


def make_functools_module():
    m = Module("functools")

    def reduce(it, fn, xs, *init):
        items = it.iterate(xs)
        if init:
            acc = init[0]
        else:
            acc = items[0]
            items = items[1:]
        for x in items:
            acc = it.call(fn, [acc, x], {})
        return acc

    m.ns["reduce"] = Builtin("reduce", reduce, True)

    def partial(it, fn, *a, **k):
        return Builtin("partial", lambda it2, *b, **kw: it2.call(fn, list(a) + list(b), {**k, **kw}), True)

    m.ns["partial"] = Builtin("partial", partial, True)
    return m


def make_itertools_module():
    """Eager models (iterables are lists in this interpreter) of the members whose result does not depend on *when* the
    items are produced.  takewhile / dropwhile / islice / count / cycle are lazy in an observable way (a predicate that
    looks at state the loop body changes): they stay unmodelled = Unsupported at the point of use."""
    m = Module("itertools")

    def chain(it, *xs):
        out = []
        for x in xs:
            out.extend(it.iterate(x))
        return out

    class _Chain:
        def py_call(self, it, args, kwargs):
            return chain(it, *args)

        def py_getattr(self, it, name):
            if name == "from_iterable":
                return Builtin("chain.from_iterable", lambda it2, xs: chain(it2, *it2.iterate(xs)), True)
            raise Unsupported(f"itertools.chain.{name} is not modelled by the interpreter")

    m.ns["chain"] = _Chain()
    m.ns["repeat"] = Builtin("repeat", lambda it, x, n=None: [x] * n if isinstance(n, int) else (_ for _ in ()).throw(Unsupported("itertools.repeat without a concrete count")), True)
    return m


def make_operator_module():
    m = Module("operator")
    import ast as _ast

    def attrgetter(it, *names):
        def get1(it2, obj, dotted):
            for part in dotted.split("."):
                obj = it2.getattr(obj, part)
            return obj

        def call(it2, obj):
            vals = [get1(it2, obj, n) for n in names]
            return vals[0] if len(vals) == 1 else tuple(vals)
        return Builtin("attrgetter", call, True)

    def itemgetter(it, *keys):
        from . import pybuiltins

        def call(it2, obj):
            vals = [pybuiltins.getitem(it2, obj, k) for k in keys]
            return vals[0] if len(vals) == 1 else tuple(vals)
        return Builtin("itemgetter", call, True)

    m.ns["attrgetter"] = Builtin("attrgetter", attrgetter, True)
    m.ns["itemgetter"] = Builtin("itemgetter", itemgetter, True)
    for nm, node in (("add", _ast.Add()), ("sub", _ast.Sub()), ("mul", _ast.Mult()), ("or_", _ast.BitOr()), ("and_", _ast.BitAnd()), ("xor", _ast.BitXor()),
                     ("lshift", _ast.LShift()), ("rshift", _ast.RShift()), ("floordiv", _ast.FloorDiv()), ("mod", _ast.Mod()), ("truediv", _ast.Div())):
        m.ns[nm] = Builtin(nm, (lambda n: lambda it, a, b: it.binop(n, a, b))(node), True)
    m.ns["getitem"] = Builtin("getitem", lambda it, a, b: __import__("pyvc.pybuiltins", fromlist=["getitem"]).getitem(it, a, b), True)
    m.ns["eq"] = Builtin("eq", lambda it, a, b: it.py_eq(a, b), True)
    m.ns["ne"] = Builtin("ne", lambda it, a, b: sym_not(it.py_eq(a, b)), True)
    m.ns["not_"] = Builtin("not_", lambda it, a: not it.test(a), True)
    m.ns["truth"] = Builtin("truth", lambda it, a: it.test(a), True)
    return m


def sym_not(x):
    from .sym import Not
    return (not x) if isinstance(x, bool) else Not(x)


# -------------------------------------------------------------------------------------
# datetime: integer model (microseconds / hour-minute fields)


class TimeDelta:
    """datetime.timedelta as an integer number of microseconds (possibly symbolic)."""

    def __init__(self, us):
        self.us = us

    def __repr__(self):
        return f"timedelta(us={self.us})"

    def py_class(self, it):
        return it.loader.modules["datetime"].ns["timedelta"]

    def py_getattr(self, it, name):
        if name == "total_seconds":
            return Builtin("timedelta.total_seconds", lambda: sym.mkreal(sym.real_t(self.us) / 1000000) if is_sym(self.us) else self.us / 1000000)
        if name == "days":
            return self.us // 86400000000
        if name == "seconds":
            return (self.us // 1000000) % 86400
        if name == "microseconds":
            return self.us % 1000000
        raise _unmodelled(self, name)

    def py_eq(self, it, o):
        if isinstance(o, TimeDelta):
            return eq(self.us, o.us)
        return False


class TimeVal:
    def __init__(self, hour, minute, second=0, microsecond=0):
        self.hour, self.minute, self.second, self.microsecond = hour, minute, second, microsecond

    def __repr__(self):
        return f"time({self.hour}, {self.minute})"

    def py_class(self, it):
        return it.loader.modules["datetime"].ns["time"]

    def py_getattr(self, it, name):
        if name in ("hour", "minute", "second", "microsecond"):
            return getattr(self, name)
        raise _unmodelled(self, name)

    def py_eq(self, it, o):
        if isinstance(o, TimeVal):
            return And(eq(self.hour, o.hour), eq(self.minute, o.minute), eq(self.second, o.second), eq(self.microsecond, o.microsecond))
        return False


def make_datetime_module():
    m = Module("datetime")
    td = Class("timedelta", [], {}, module="datetime")
    tm = Class("time", [], {}, module="datetime")

    def td_new(it, cls, a, k):
        names = ["days", "seconds", "microseconds", "milliseconds", "minutes", "hours", "weeks"]
        vals = dict(zip(names, a))
        vals.update(k)
        mult = {"days": 86400000000, "seconds": 1000000, "microseconds": 1, "milliseconds": 1000,
                "minutes": 60000000, "hours": 3600000000, "weeks": 7 * 86400000000}
        us = 0
        for n, v in vals.items():
            if isinstance(v, (float, SReal)):
                raise Unsupported("timedelta with float components")
            us = us + v * mult[n]
        return TimeDelta(us)

    def tm_new(it, cls, a, k):
        names = ["hour", "minute", "second", "microsecond"]
        vals = dict(zip(names, a))
        vals.update(k)
        h = vals.get("hour", 0)
        mi = vals.get("minute", 0)
        s = vals.get("second", 0)
        us = vals.get("microsecond", 0)
        bad = Or(h < 0, h > 23, mi < 0, mi > 59, s < 0, s > 59, us < 0, us > 999999)
        if it.path.branch(bad):
            raise it.exc("ValueError", "time field out of range")
        return TimeVal(h, mi, s, us)

    td.ns["__native_new__"] = td_new
    tm.ns["__native_new__"] = tm_new
    m.ns["timedelta"] = td
    m.ns["time"] = tm
    return m
