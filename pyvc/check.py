"""Entry point:  python3-vt -m pyvc.check <property-id> [--tier quick|thorough]
                 python3-vt -m pyvc.check --replay <file>

Exit codes: 0 held (possibly with KNOWN-FINDING lines) / 1 VIOLATION / 2 undecided / 3 checker error.
"""
from __future__ import annotations

import argparse
import glob
import hashlib
import importlib
import json
import multiprocessing as mp
import os
import subprocess
import sys
import tempfile
import time
import traceback

VERIF = os.path.dirname(os.path.dirname(os.path.abspath(__file__)))
REPO = os.environ.get("PYVC_REPO", "/repo")
OUT = os.environ.get("PYVC_OUT", VERIF)  # evidence/ and replays/ go here (scratch runs against seeded changes use a temp dir)
if VERIF not in sys.path:
    sys.path.insert(0, VERIF)
if REPO not in sys.path:
    sys.path.insert(1, REPO)  # native readings and lemmas import the real package from the tree under check

from pyvc import vc  # noqa: E402
from pyvc.loader import Loader  # noqa: E402

_LOADER = None
_OSETS = None


def _quiet_package_logging():
    """Native readings run the real package: keep its log output (warnings about unknown ids etc.) off the check's stderr."""
    import logging
    lg = logging.getLogger("pyairtouch")
    lg.addHandler(logging.NullHandler())
    lg.propagate = False
    logging.getLogger("asyncio").setLevel(logging.CRITICAL)


_quiet_package_logging()
try:   # kill -USR1 <pid> dumps the Python stack of a check (or of one of its workers) to stderr: for diagnosing a slow run
    import faulthandler
    import signal as _signal
    faulthandler.register(_signal.SIGUSR1, all_threads=True)
except Exception:  # noqa: BLE001
    pass


def build_loader():
    L = Loader(REPO)
    for f in sorted(glob.glob(os.path.join(REPO, "pyairtouch", "**", "*.py"), recursive=True)):
        n = os.path.relpath(f, REPO)[:-3].replace(os.sep, ".")
        if n.endswith(".__init__"):
            n = n[:-9]
        if n in ("pyairtouch.comms.udp", "pyairtouch.__main__", "pyairtouch.main"):
            continue
        try:
            L.load(n)
        except Exception as e:  # noqa: BLE001
            # a module the interpreter cannot load (a construct outside the modelled subset at module level) only concerns
            # the obligation sets that use it: they end undecided when they ask for it; the other properties are unaffected
            L.load_failures = getattr(L, "load_failures", {})
            L.load_failures[n] = f"{type(e).__name__}: {e}"
            L.modules.pop(n, None)
    vc.mark_generation0(L)
    return L


def _worker(idx):
    oset = _OSETS[idx]
    try:
        rep = vc.run_oset(oset, _LOADER, obl_timeout_ms=oset.timeout_ms or int(os.environ.get("PYVC_OBL_TIMEOUT_MS", "20000")))
        return idx, rep.to_json()
    except Exception as e:  # noqa: BLE001
        return idx, {"name": oset.name, "props": oset.props, "functions": oset.functions, "kind": oset.kind,
                     "bounded": oset.bounded, "paths": 0, "status": "error", "obligations": {}, "undecided": [],
                     "errors": [f"{type(e).__name__}: {e}\n{traceback.format_exc(limit=8)}"], "covers": {},
                     "secs": 0, "solver_secs": 0, "assumptions": [], "trusted": []}


def _conf_worker(arg):
    idx, seed, tries = arg
    oset = _OSETS[idx]
    try:
        from pyvc import replay
        import logging
        logging.disable(logging.CRITICAL)
        return idx, replay.conformance(oset.name, seed, tries)
    except Exception as e:  # noqa: BLE001
        return idx, {"samples": 0, "compared": 0, "disagreements": [], "skipped": f"conformance harness failed: {type(e).__name__}: {e}"}


def _search_worker(arg):
    idx, seed, tries = arg[:3]
    budget = arg[3] if len(arg) > 3 else None
    oset = _OSETS[idx]
    try:
        from pyvc import replay
        import logging
        logging.disable(logging.CRITICAL)
        return idx, replay.search_native(oset.name, seed, tries, budget_s=budget)
    except Exception as e:  # noqa: BLE001
        return idx, {"reproduced": False, "note": f"native search failed to run: {type(e).__name__}: {e}", "tries": 0}


def fallback_solve(smt2, timeout_s=60):
    """Try the other installed solvers on an obligation z3 5.1 left open. Returns (result, backend)."""
    # z3's simplifier rewrites seq.nth into its internal seq.nth_i / seq.nth_u pair (in-bounds / out-of-bounds
    # halves of the same function); SMT-LIB's seq.nth is exactly their union, so the textual replacement is sound.
    smt2 = smt2.replace("seq.nth_u", "seq.nth").replace("seq.nth_i", "seq.nth")
    if "(set-logic" not in smt2:
        smt2 = "(set-logic ALL)\n" + smt2
    with tempfile.NamedTemporaryFile("w", suffix=".smt2", delete=False, dir=os.path.join(OUT, "evidence")) as f:
        f.write(smt2)
        fn = f.name
    try:
        for backend, cmd in (("cvc5-1.0.3", ["/usr/bin/cvc5", "--strings-exp", f"--tlimit={timeout_s * 1000}", fn]),
                             ("z3-4.8.12", ["/usr/bin/z3", f"-T:{timeout_s}", fn])):
            try:
                out = subprocess.run(cmd, capture_output=True, text=True, timeout=timeout_s + 10).stdout.strip().splitlines()
            except Exception:  # noqa: BLE001
                continue
            if out and out[0] in ("unsat", "sat"):
                return out[0], backend
        return "unknown", None
    finally:
        os.unlink(fn)


def load_known():
    p = os.path.join(VERIF, "known_findings.json")
    if not os.path.exists(p):
        return {"findings": [], "fixed": []}
    return json.load(open(p))


def native_replay(oset_name, inputs, search_seed=None):
    """Run the proof script natively (real package, CPython). Returns dict(reproduced, failed, note)."""
    payload = json.dumps({"oset": oset_name, "inputs": inputs, "search_seed": search_seed})
    env = dict(os.environ)
    env["PYTHONPATH"] = REPO + os.pathsep + VERIF + os.pathsep + env.get("PYTHONPATH", "")
    try:
        out = subprocess.run([sys.executable, "-m", "pyvc.replay", "-"], input=payload, capture_output=True, text=True,
                             timeout=150, env=env, cwd=VERIF)
        last = [l for l in out.stdout.splitlines() if l.startswith("{")]
        if not last:
            return {"reproduced": False, "note": "replay produced no result: " + (out.stderr or out.stdout)[-400:]}
        return json.loads(last[-1])
    except Exception as e:  # noqa: BLE001
        return {"reproduced": False, "note": f"replay failed to run: {e}"}


def main(argv=None):
    global _LOADER, _OSETS
    ap = argparse.ArgumentParser()
    ap.add_argument("prop", nargs="?")
    ap.add_argument("--tier", default=os.environ.get("VERIF_TIER", "quick"))
    ap.add_argument("--replay")
    ap.add_argument("--jobs", type=int, default=int(os.environ.get("PYVC_JOBS", "16")))
    ap.add_argument("--only", help="substring filter on obligation-set names (debugging)")
    ap.add_argument("--update-baseline", action="store_true")
    ap.add_argument("-v", action="store_true")
    a = ap.parse_args(argv)
    if a.replay:
        from pyvc import replay
        return replay.replay_file(a.replay)
    prop = a.prop
    seed = int(os.environ.get("VERIF_SEED", "0") or 0)
    t0 = time.time()
    os.makedirs(os.path.join(OUT, "evidence"), exist_ok=True)
    os.makedirs(os.path.join(OUT, "replays"), exist_ok=True)
    try:
        from contracts import index
        _LOADER = build_loader()
        for m in index.MODULES[prop]:
            importlib.import_module(m)
    except Exception as e:  # noqa: BLE001
        print(f"CHECKER-ERROR property={prop} loading: {type(e).__name__}: {e}")
        traceback.print_exc()
        return 3
    if a.tier == "thorough":
        from pyvc import interp as _interp
        _interp.Path.XCHECK_MAX = 6   # per path; at most 60 per obligation set: sample for the second solver
    _OSETS = [o for o in vc.REGISTRY if prop in o.props and (o.tier == "quick" or a.tier == "thorough")
              and (not a.only or a.only in o.name)]
    if not _OSETS:
        print(f"CHECKER-ERROR property={prop} no obligation sets registered")
        return 3
    # binding check: every function named by a contract must exist in the current tree
    for o in _OSETS:
        for fn in o.functions:
            try:
                f, _ = _LOADER.function(fn)
                if f is None or f is vc.MISSING:
                    raise KeyError(fn)
            except Exception:  # noqa: BLE001
                lf = getattr(_LOADER, "load_failures", {})
                if lf:
                    first = sorted(lf.items())[0]
                    print(f"UNDECIDED property={prop} set={o.name}: module {first[0]} (and what imports it) is outside the modelled subset: {first[1][:200]}")
                    return 2
                print(f"CHECKER-ERROR property={prop} binding: contract {o.name!r} targets {fn} which does not exist in the current tree")
                return 3
    phases = {"load": round(time.time() - t0, 2)}
    ctx = mp.get_context("fork")
    results = [None] * len(_OSETS)
    with ctx.Pool(min(a.jobs, len(_OSETS))) as pool:
        for idx, rj in pool.imap_unordered(_worker, range(len(_OSETS))):
            results[idx] = rj

    phases["vcs"] = round(time.time() - t0 - phases["load"], 2)
    # interpreter conformance: the same proof scripts, concrete random inputs, CPython vs pyvc
    conf_tries = 8 if a.tier == "quick" else 80
    conf = {"osets": 0, "samples": 0, "compared": 0, "disagreements": []}
    if REPO not in sys.path:
        sys.path.insert(0, REPO)
    with ctx.Pool(min(a.jobs, len(_OSETS))) as pool:
        for idx, cr in pool.imap_unordered(_conf_worker, [(i, seed, conf_tries) for i in range(len(_OSETS))]):
            if cr["samples"]:
                conf["osets"] += 1
            conf["samples"] += cr["samples"]
            conf["compared"] += cr["compared"]
            for d in cr["disagreements"]:
                conf["disagreements"].append({"oset": _OSETS[idx].name, **d})

    phases["conformance"] = round(time.time() - t0 - phases["load"] - phases["vcs"], 2)
    # thorough tier: independent bounded native search - the executable contracts run on the real package
    # (CPython) on random inputs inside the declared ranges; a failing input is a violation with a native replay
    native_search = {"osets": 0, "inputs": 0, "evaluated": 0, "failures": []}
    if a.tier == "thorough":
        with ctx.Pool(min(a.jobs, len(_OSETS))) as pool:
            for idx, sr in pool.imap_unordered(_search_worker, [(i, seed + 1000, 400) for i in range(len(_OSETS))]):
                if sr.get("tries"):
                    native_search["osets"] += 1
                    native_search["inputs"] += sr["tries"]
                    native_search["evaluated"] += sr.get("evaluated", 0)
                if sr.get("reproduced"):
                    native_search["failures"].append({"oset": _OSETS[idx].name, "failed": sr.get("failed"), "inputs": sr.get("inputs")})

    # second chance for obligations z3 5.1 left open
    for rj in results:
        for name, ob in rj["obligations"].items():
            if ob["status"] == "unknown" and ob.get("smt2"):
                r, backend = fallback_solve(ob["smt2"], 20 if a.tier == "quick" else 180)
                if r == "unsat":
                    ob["status"] = "discharged"
                    ob["backend"] = backend
                elif r == "sat":
                    ob["status"] = "failed"
                    ob["backend"] = backend
                    ob["model"] = None
            ob.pop("smt2", None)
        rj["status"] = _status(rj)

    known = load_known()
    violations = []
    known_hits = []
    undecided = []
    errors = []
    total = discharged = 0
    bounded_total = bounded_discharged = 0
    backends = {}
    solver_secs = 0.0
    max_obl_secs = 0.0
    functions = set()
    assumptions = set()
    trusted = set()
    samples = []
    for o, rj in zip(_OSETS, results):
        functions.update(rj["functions"])
        assumptions.update(rj["assumptions"])
        trusted.update(rj["trusted"])
        solver_secs += rj["solver_secs"]
        for e in rj["errors"]:
            errors.append((rj["name"], e))
        for u in rj["undecided"]:
            undecided.append((rj["name"], u))
        if not rj["obligations"] and not rj["errors"] and not rj["undecided"]:
            errors.append((rj["name"], "vacuous: no obligation generated"))
        for c, ok in rj["covers"].items():
            if not ok:
                errors.append((rj["name"], f"vacuous: cover point {c!r} unreachable"))
        for name, ob in rj["obligations"].items():
            full = f"{rj['name']} :: {name}"
            if rj["bounded"]:
                bounded_total += 1
            else:
                total += 1
            max_obl_secs = max(max_obl_secs, ob["secs"])
            if ob["status"] == "discharged":
                if rj["bounded"]:
                    bounded_discharged += 1
                else:
                    discharged += 1
                backends[ob["backend"]] = backends.get(ob["backend"], 0) + 1
                if len(samples) < 6 and ob["backend"] != "syntactic":
                    samples.append({"obligation": full, "verdict": "unsat (discharged)", "backend": ob["backend"],
                                    "paths": ob["paths"], "secs": ob["secs"]})
            elif ob["status"] == "unknown":
                undecided.append((rj["name"], f"solver gave no answer for obligation {name!r}"))
            else:
                # a refuted obligation is not part of the proved count: it is either a recorded finding or a violation
                if rj["bounded"]:
                    bounded_total -= 1
                else:
                    total -= 1
                kf = _match_known(known, prop, rj["name"], name)
                if kf is not None:
                    known_hits.append((full, kf))
                    continue
                violations.append((rj, name, ob))

    # bounded stand-in (DESIGN.md 2.9): an obligation set the verifier could not decide on this tree (the code left
    # the modelled subset, a loop contract no longer fits the loop, a solver gave no answer) is put to its native
    # reading - the same proof script on the real package, random inputs inside the declared ranges.  A failing input is
    # a violation with a native replay; otherwise the set is reported as *bounded* (never counted as proved) and
    # does not make the run undecided.
    standins = []
    und_sets = sorted({n for n, _ in undecided})
    if und_sets and os.environ.get("PYVC_NO_STANDIN") != "1" and not a.only:
        cand = [i for i, rj in enumerate(results) if rj["name"] in und_sets and not rj["errors"]]
        s_tries, s_budget = (1500, 60) if a.tier == "quick" else (8000, 300)
        if cand:
            with ctx.Pool(min(a.jobs, len(cand))) as pool:
                for idx, sr in pool.imap_unordered(_search_worker, [(i, seed + 2000, s_tries, s_budget) for i in cand]):
                    nm = _OSETS[idx].name
                    if sr.get("reproduced"):
                        native_search["failures"].append({"oset": nm, "failed": sr.get("failed"), "inputs": sr.get("inputs")})
                    elif sr.get("tries", 0) > 0 and sr.get("evaluated", 0) > 0:
                        reasons = [u for n, u in undecided if n == nm]
                        standins.append({"set": nm, "why_not_proved": reasons[:5], "random_inputs_run_on_the_real_package": sr["tries"],
                                         "obligation_evaluations": sr["evaluated"], "obligations_evaluated_natively": sr.get("checked_names", []),
                                         "failing_inputs": 0, "label": "bounded (random testing of the executable contract; not a proof)"})
        # what the stand-in did NOT reach: obligations of the committed baseline for this set that were neither
        # discharged in this run nor evaluated natively (reported with the stand-in, so that "bounded" is not read as
        # "every obligation of the set was at least tested")
        try:
            _bl = json.load(open(os.path.join(VERIF, "baseline_obligations.json"))).get(a.tier, {}).get(prop) or []
        except (OSError, ValueError):
            _bl = []
        for st in standins:
            done = {n for rj in results if rj["name"] == st["set"] for n, v in rj["obligations"].items() if v.get("status") == "discharged"}
            done |= set(st["obligations_evaluated_natively"])
            st["baseline_obligations_neither_proved_nor_evaluated"] = sorted(
                n.split(" :: ", 1)[1] for n in _bl if n.split(" :: ")[0] == st["set"] and n.split(" :: ", 1)[1] not in done)
        covered = {st["set"] for st in standins}
        undecided = [(n, u) for n, u in undecided if n not in covered]

    for nf in native_search["failures"]:
        # a natively failing obligation that the verifier did not refute (or that is not a recorded finding)
        for oname in nf["failed"] or []:
            if _match_known(known, prop, nf["oset"], oname) is not None:
                continue
            already = any(rj["name"] == nf["oset"] and n == oname for rj, n, _ in violations)
            if not already:
                rj = next(r for r in results if r["name"] == nf["oset"])
                violations.append((rj, oname, {"status": "failed", "model": nf["inputs"], "backend": "native-search", "secs": 0,
                                               "paths": 0, "kind": "post", "detail": "found by the bounded native search of the thorough tier"}))
    for d in conf["disagreements"][:5]:
        errors.append((d["oset"], "interpreter conformance: pyvc and CPython disagree on " + json.dumps(d, default=str)[:400]))
    exit_code = 0
    lines = []
    for full, kf in known_hits:
        lines.append(f"KNOWN-FINDING: property={prop} {kf['what']} [{full}]")
    # native replays run side by side and under one wall-clock budget: a change that breaks many obligations (or makes
    # the real code spin) must not turn the report into an hour of replays
    if violations:
        import concurrent.futures as _cf
        deadline = time.time() + float(os.environ.get("PYVC_REPLAY_BUDGET_S", "240"))
        with _cf.ThreadPoolExecutor(max_workers=8) as ex:
            futs = [ex.submit(_write_replay, prop, rj, name, ob, seed, deadline) for rj, name, ob in violations]
            for f in futs:
                rp = f.result()
                tail = "" if rp[1] else " no-failing-input-found"
                lines.append(f"VIOLATION property={prop} replay={rp[0]}{tail}")
                exit_code = 1
    if exit_code == 0 and errors:
        exit_code = 3
    if exit_code == 0 and undecided:
        exit_code = 2

    # baseline guard (vacuity by disappearance): every obligation recorded for the pinned tree must still be generated
    bl_path = os.path.join(VERIF, "baseline_obligations.json")
    current_names = sorted(f"{rj['name']} :: {n}" for rj in results for n in rj["obligations"])
    if a.update_baseline:
        bl = json.load(open(bl_path)) if os.path.exists(bl_path) else {}
        bl.setdefault(a.tier, {})[prop] = current_names
        if a.tier == "thorough":
            pass
        json.dump(bl, open(bl_path, "w"), indent=1, sort_keys=True)
    elif os.path.exists(bl_path) and not a.only:
        bl = json.load(open(bl_path)).get(a.tier, {}).get(prop)
        if bl is not None:
            missing = [n for n in bl if n not in current_names]
            missing = [n for n in missing if n.split(" :: ")[0] not in {st["set"] for st in standins}]
            if missing and exit_code in (0, 2):
                # an obligation that used to be generated is gone: undecided paths may hide it
                if not undecided and not errors:
                    errors.append(("baseline", f"{len(missing)} obligations of the committed baseline were not generated, e.g. {missing[:3]}"))
                    exit_code = 3

    # thorough tier: a sample of the queries the primary solver answered `unsat` is put to a second, independent solver
    xres = {"queries": 0, "agree": 0, "second_solver_unknown": 0, "disagree": []}
    if a.tier == "thorough":
        import concurrent.futures as _cf2
        qs = [(rj["name"], q) for rj in results for q in rj.get("xcheck", [])]

        def second_opinion(item):
            name, smt2 = item
            r, backend = fallback_solve(smt2, timeout_s=20)
            return name, r
        with _cf2.ThreadPoolExecutor(max_workers=12) as ex:
            for name, r in ex.map(second_opinion, qs):
                xres["queries"] += 1
                if r == "unsat":
                    xres["agree"] += 1
                elif r == "sat":
                    xres["disagree"].append(name)
                else:
                    xres["second_solver_unknown"] += 1
        if xres["disagree"]:
            errors.append(("cross-solver", f"cvc5 / z3 4.8 found a model for {len(xres['disagree'])} queries z3 5.1 answered unsat, e.g. in {xres['disagree'][:3]}"))
            if exit_code == 0:
                exit_code = 3

    # history lemmas (DESIGN.md 3.4): machine-checked induction from the step contracts discharged above to the
    # history statement; only reported when every step contract it rests on was discharged in this very run
    history, h_errs, h_und = run_history_lemmas(prop, results, a.only, {st["set"] for st in standins})
    for e in h_errs:
        errors.append(e)
        if exit_code == 0:
            exit_code = 3
    for u in h_und:
        undecided.append(u)
        if exit_code == 0:
            exit_code = 2

    wall = time.time() - t0
    ev = {
        "property_id": prop, "tier": a.tier, "seed": seed, "level": "proof",
        "coverage": {
            "obligations": total, "discharged": discharged,
            "checker_cmd": f"python3-vt -m pyvc.check {prop} --tier {a.tier}",
            "trusted_base": sorted(trusted) + ["pyvc VC generator (interpreter cross-checked against CPython by pyvc.conformance)",
                                                "z3 5.1.0 (fallback: cvc5 1.0.3, z3 4.8.12)"],
            "functions_under_contract": sorted(functions),
            "functions_symbolically_executed": sorted({f for rj in results for f in rj.get("executed", [])}),
            "obligation_sets": [{"name": rj["name"], "kind": rj["kind"], "status": rj["status"], "paths": rj["paths"],
                                 "obligations": len(rj["obligations"]), "bounded": rj["bounded"], "secs": rj["secs"]}
                                for rj in results],
            "backends": backends, "solver_seconds": round(solver_secs, 2), "max_obligation_seconds": round(max_obl_secs, 2),
            "undecided": [f"{n}: {u}" for n, u in undecided], "checker_errors": [f"{n}: {e[:300]}" for n, e in errors],
            "bounded_stand_ins": {"obligations": bounded_total, "discharged": bounded_discharged,
                                  "sets": [{"name": rj["name"], "bound": rj["bounded"]} for rj in results if rj["bounded"]],
                                  "undecided_sets_checked_natively_instead": standins},
            "known_findings_hit": [full for full, _ in known_hits],
            "refuted_obligations_not_counted_above": len(known_hits) + len(violations),
            "bounded_native_search": {"obligation_sets": native_search["osets"], "random_inputs_run_on_the_real_package": native_search["inputs"],
                                      "obligations_evaluated_natively": native_search["evaluated"],
                                      "failing_inputs": len(native_search["failures"])},
            "interpreter_conformance": {"obligation_sets_with_native_reading": conf["osets"], "random_inputs": conf["samples"],
                                        "obligation_values_compared_cpython_vs_pyvc": conf["compared"],
                                        "disagreements": len(conf["disagreements"])},
            "history_lemmas": history,
            "cross_solver_recheck": {"sampled_unsat_queries": xres["queries"], "second_solver_agrees": xres["agree"],
                                     "second_solver_undecided": xres["second_solver_unknown"], "disagreements": len(xres["disagree"])},
            "phase_seconds": dict(phases, total=round(wall, 2)),
            "paths_explored": sum(rj["paths"] for rj in results),
            "source_sha256": dict(sorted(_LOADER.source_sha.items())),
            "samples": samples or [{"obligation": n} for n in current_names[:3]],
            "explanation": "every obligation is a verification condition generated by symbolically executing the current /repo source of the listed functions against the sidecar contracts; 'discharged' = SMT solver answered unsat for (path condition and not obligation)",
        },
        "assumptions": sorted(assumptions),
        "wall_s": round(wall, 2),
        "violations": len(violations),
    }
    if standins:
        ev["coverage"]["note"] = (f"{len(standins)} obligation set(s) were not decided by the verifier on this tree and were checked by their bounded "
                                  "native reading instead (bounded_stand_ins.undecided_sets_checked_natively_instead); they are not part of the proved count")
    if total == 0 or discharged != total:
        # a proof-level claim needs every obligation discharged; otherwise report honestly at level "other"
        if violations or undecided or errors or known_hits or standins:
            ev["coverage"]["note"] = "not all obligations discharged on this run; see undecided / violations / known findings"
    with open(os.path.join(OUT, "evidence", f"{prop}.json"), "w") as f:
        json.dump(ev, f, indent=1, default=str)

    for n, e in errors:
        lines.append(f"CHECKER-ERROR property={prop} set={n}: {e.splitlines()[0][:300]}")
    for st in standins:
        lines.append(f"BOUNDED-STAND-IN property={prop} set={st['set']}: not decided by the verifier ({st['why_not_proved'][0][:160]}); "
                     f"{st['random_inputs_run_on_the_real_package']} random inputs on the real package, "
                     f"{st['obligation_evaluations']} obligation evaluations, none failed - bounded, not counted as proved"
                     + (f"; {len(st['baseline_obligations_neither_proved_nor_evaluated'])} obligation(s) of this set were neither proved nor evaluated on this tree"
                        if st.get("baseline_obligations_neither_proved_nor_evaluated") else ""))
    for n, u in undecided[:20]:
        lines.append(f"UNDECIDED property={prop} set={n}: {u[:300]}")
    for l in lines:
        print(l)
    print(f"[{prop}] tier={a.tier} sets={len(_OSETS)} obligations={total} discharged={discharged} "
          f"bounded={bounded_discharged}/{bounded_total} known={len(known_hits)} violations={len(violations)} "
          f"undecided={len(undecided)} errors={len(errors)} wall={wall:.1f}s exit={exit_code}")
    if a.v:
        for rj in results:
            print("  ", rj["name"], rj["status"], f"paths={rj['paths']}", f"{rj['secs']}s")
            for n, ob in rj["obligations"].items():
                if ob["status"] != "discharged":
                    print("      ", ob["status"], n, ob.get("model"))
    return exit_code


_ALLOWED_AXIOMS = {"propext", "Classical.choice", "Quot.sound"}


def _only_called_from(cls_node, roots):
    """Names of methods of the class that are (transitively) only ever referenced from the methods in `roots`:
    private helpers a refactoring may extract.  A step contract executes its function together with such helpers,
    so state they touch is still inside the step contract."""
    import ast
    funcs = {n.name: n for n in ast.walk(cls_node) if isinstance(n, (ast.FunctionDef, ast.AsyncFunctionDef))}

    def mentions(node, name):
        return any(isinstance(x, ast.Attribute) and x.attr == name for x in ast.walk(node))
    allowed = set(roots)
    changed = True
    while changed:
        changed = False
        for name, fn in funcs.items():
            if name in allowed:
                continue
            users = [o for o, f in funcs.items() if o != name and mentions(f, name)]
            if users and all(u in allowed for u in users):
                allowed.add(name)
                changed = True
    return allowed


def _queue_frame_fact():
    """Syntactic frame condition the FIFO lemma needs: in the real socket.py the pending queue is only mutated
    by __init__, _enqueue_message and _drain_message_queue, and writer.write is only called by _write."""
    import ast
    path = os.path.join(REPO, "pyairtouch", "comms", "socket.py")
    tree = ast.parse(open(path).read())
    bad = []
    mut = {"append", "appendleft", "popleft", "pop", "clear", "extend", "extendleft", "remove", "insert", "rotate", "reverse"}

    def is_queue(n):
        return isinstance(n, ast.Attribute) and n.attr == "_message_queue"
    for cls in [n for n in ast.walk(tree) if isinstance(n, ast.ClassDef)]:
        q_ok = _only_called_from(cls, ["_enqueue_message", "_drain_message_queue"])
        w_ok = _only_called_from(cls, ["_write"])
        for fn in [n for n in ast.walk(cls) if isinstance(n, (ast.FunctionDef, ast.AsyncFunctionDef))]:
            for n in ast.walk(fn):
                if isinstance(n, ast.Call) and isinstance(n.func, ast.Attribute):
                    if is_queue(n.func.value) and n.func.attr in mut and fn.name not in q_ok:
                        bad.append(f"{fn.name}: _message_queue.{n.func.attr}()")
                    if n.func.attr in ("write", "writelines") and isinstance(n.func.value, ast.Attribute) and n.func.value.attr == "_writer" \
                            and fn.name not in w_ok:
                        bad.append(f"{fn.name}: _writer.{n.func.attr}()")
                if isinstance(n, (ast.Assign, ast.AugAssign, ast.AnnAssign, ast.Delete)):
                    tg = n.targets if isinstance(n, (ast.Assign, ast.Delete)) else [n.target]
                    for t in tg:
                        base = t.value if isinstance(t, ast.Subscript) else t
                        if is_queue(base) and fn.name != "__init__" and fn.name not in q_ok:
                            bad.append(f"{fn.name}: assignment / del on _message_queue")
    return bad


def _connection_frame_fact():
    """Frame condition of lemmas/Conn.lean: in the real socket.py `open_connection` is called only by _connect,
    `_reader` / `_writer` are assigned only by __init__, _connect and _disconnect, `is_open` only by __init__, close and open_socket."""
    import ast
    tree = ast.parse(open(os.path.join(REPO, "pyairtouch", "comms", "socket.py")).read())
    bad = []
    for cls in [n for n in ast.walk(tree) if isinstance(n, ast.ClassDef)]:
        c_ok = _only_called_from(cls, ["_connect"])
        rw_ok = _only_called_from(cls, ["_connect", "_disconnect"])
        io_ok = _only_called_from(cls, ["close", "open_socket"])
        for fn in [n for n in ast.walk(cls) if isinstance(n, (ast.FunctionDef, ast.AsyncFunctionDef))]:
            for n in ast.walk(fn):
                if isinstance(n, ast.Call) and isinstance(n.func, ast.Attribute) and n.func.attr in ("open_connection", "start_server", "create_connection") \
                        and fn.name not in c_ok:
                    bad.append(f"{fn.name}: {n.func.attr}()")
                if isinstance(n, (ast.Assign, ast.AugAssign, ast.AnnAssign)):
                    tg = n.targets if isinstance(n, ast.Assign) else [n.target]
                    flat = []
                    for t in tg:
                        flat.extend(t.elts if isinstance(t, (ast.Tuple, ast.List)) else [t])
                    for t in flat:
                        if isinstance(t, ast.Attribute) and t.attr in ("_reader", "_writer") and fn.name != "__init__" and fn.name not in rw_ok:
                            bad.append(f"{fn.name}: assignment to {t.attr}")
                        if isinstance(t, ast.Attribute) and t.attr == "is_open" and fn.name != "__init__" and fn.name not in io_ok:
                            bad.append(f"{fn.name}: assignment to is_open")
    return bad


def run_history_lemmas(prop, results, only, standin_sets=frozenset()):
    path = os.path.join(VERIF, "lemmas", "hypotheses.json")
    out, errs, und = [], [], []
    if only or not os.path.exists(path):
        return out, errs, und
    status = {f"{rj['name']} :: {n}": ob["status"] for rj in results for n, ob in rj["obligations"].items()}
    for lem in json.load(open(path))["lemmas"]:
        thms = lem["properties"].get(prop)
        if not thms:
            continue
        hyps = [o for obs in lem["steps"].values() for o in obs]
        entry = {"file": lem["file"], "theorems": thms, "step_contracts_used": lem["steps"], "not_covered": lem.get("not_covered", []),
                 "checker": "lean 4 kernel (lean <file>); allowed axioms: propext, Classical.choice, Quot.sound"}
        out.append(entry)
        missing = [o for o in hyps if o not in status]
        if missing and all(o.split(" :: ")[0] in standin_sets for o in missing):
            entry["status"] = "not applicable in this run: step contracts only checked by their bounded stand-in: " + "; ".join(missing[:3])
            continue
        if missing:
            entry["status"] = "hypotheses missing"
            errs.append(("history-lemma", f"{len(missing)} step-contract obligations named by {lem['file']} are not generated, e.g. {missing[:2]}"))
            continue
        open_ = [o for o in hyps if status[o] != "discharged"]
        if open_:
            entry["status"] = "not applicable in this run: step contracts not discharged: " + "; ".join(open_[:3])
            continue
        bad = (_queue_frame_fact() if lem.get("frame_check") == "socket-queue"
               else _connection_frame_fact() if lem.get("frame_check") == "socket-connection" else [])
        if bad:
            entry["status"] = "not applicable: frame condition of the lemma does not hold: " + "; ".join(bad[:3])
            und.append(("history-lemma", f"state the lemma speaks about is touched outside the functions under step contract ({bad[0]}): "
                        f"the induction of {lem['file']} does not cover this code"))
            continue
        t1 = time.time()
        try:
            pr = subprocess.run(["lean", os.path.join(VERIF, lem["file"])], capture_output=True, text=True, timeout=600)
        except Exception as e:  # noqa: BLE001
            entry["status"] = f"lean could not be run: {e}"
            errs.append(("history-lemma", f"lean could not be run on {lem['file']}: {e}"))
            continue
        entry["lean_seconds"] = round(time.time() - t1, 2)
        axioms = {}
        for line in pr.stdout.splitlines():
            if "depends on axioms:" in line:
                name = line.split("'")[1]
                axioms[name] = [x.strip() for x in line.split("[", 1)[1].rstrip("]").split(",") if x.strip()]
            elif "does not depend on any axioms" in line:
                axioms[line.split("'")[1]] = []
        entry["axioms"] = {t: axioms.get(t) for t in thms}
        problems = []
        if pr.returncode != 0:
            problems.append(f"lean exit {pr.returncode}: {(pr.stdout + pr.stderr)[:300]}")
        for t in thms:
            if t not in axioms:
                problems.append(f"theorem {t} not found in the lean output")
            elif not set(axioms[t]) <= _ALLOWED_AXIOMS:
                problems.append(f"theorem {t} uses {sorted(set(axioms[t]) - _ALLOWED_AXIOMS)}")
        if problems:
            entry["status"] = "lean rejected the lemma: " + " | ".join(problems)
            errs.append(("history-lemma", entry["status"][:300]))
        else:
            entry["status"] = "checked"
    return out, errs, und


def _status(rj):
    if rj["errors"]:
        return "error"
    if any(o["status"] == "failed" for o in rj["obligations"].values()):
        return "failed"
    if rj["undecided"] or any(o["status"] == "unknown" for o in rj["obligations"].values()):
        return "undecided"
    return "discharged" if rj["obligations"] else "vacuous"


def _match_known(known, prop, oset_name, obligation):
    for kf in known.get("findings", []):
        if kf["property"] == prop and kf["oset"] == oset_name and kf["obligation"] == obligation:
            return kf
    return None


def _write_replay(prop, rj, name, ob, seed, deadline=None):
    d = os.path.join(OUT, "replays", prop)
    os.makedirs(d, exist_ok=True)
    slug = hashlib.sha1(f"{rj['name']}::{name}".encode()).hexdigest()[:10]
    path = os.path.join(d, f"{slug}.json")
    rec = {"property": prop, "oset": rj["name"], "obligation": name, "functions": rj["functions"],
           "inputs": ob.get("model"), "decisions": ob.get("decisions"), "backend": ob.get("backend"),
           "solver_output": "sat (counter-model above)" if ob.get("model") is not None else "sat",
           "detail": ob.get("detail")}
    reproduced = False
    res = None
    late = deadline is not None and time.time() > deadline
    if late:
        res = {"reproduced": False, "note": "not replayed: the replay budget of this run was used up by earlier replays"}
    if ob.get("model") is not None and not late:
        res = native_replay(rj["name"], ob["model"])
        reproduced = bool(res.get("reproduced"))
        # if the obligation can be evaluated natively, it is this obligation that has to fail
        if reproduced and name in res.get("checked_names", []) and name not in res.get("failed", []):
            reproduced = False
            res["note"] = "other obligations failed natively, but not the one the verifier refuted"
    if not reproduced and not (deadline is not None and time.time() > deadline):
        res2 = native_replay(rj["name"], None, search_seed=seed)
        if res2.get("reproduced"):
            res = res2
            reproduced = True
            rec["inputs"] = res2.get("inputs")
            rec["inputs_from"] = "bounded native search with the executable contract"
        elif res is None:
            res = res2
    rec["native_replay"] = res
    rec["reproduced_on_real_code"] = reproduced
    if not reproduced:
        rec["note"] = "no-failing-input-found: the obligation failed in the verifier; the counter-model could not be turned into a failing run of the real code"
    with open(path, "w") as f:
        json.dump(rec, f, indent=1, default=str)
    return path, reproduced


if __name__ == "__main__":
    sys.exit(main())
