"""Environment models for coroutine verification (DESIGN.md 2.6 / 2.7): stream reader/writer,
abstract subscriber sets, effect log.  All of these are *assumed contracts* of asyncio and of
user callbacks; they are listed as trusted in the evidence of every property that uses them.

Coroutines of /repo are executed synchronously by the interpreter; every awaitable that can
suspend calls `aio.suspend(it, reason)`, which runs the havoc functions registered in the World:
that is the interference rule (all shared state is replaced by arbitrary values satisfying the
object invariant, the clock moves forward).
"""
from __future__ import annotations

from pyvc.values import unmodelled as _unmodelled  # noqa: E402
import z3

from . import sym, aio
from .sym import And, Or, Not, Implies, SBool, SInt, is_sym
from .values import (Unsupported, PyExc, Builtin, Instance, BytesVal, ABytes, SetVal, Coroutine, Opaque)
from .interp import PathEnd


class World:
    def __init__(self, it):
        self.it = it
        self.havocs = []  # fn(reason)
        self.suspensions = 0
        self.site_checks = []  # fn(event tuple) called on every effect
        it.await_hook = self._on_suspend
        it.world = self
        self.frozen = False  # True: suspension without interference (sequential reasoning)

    # -- effects -------------------------------------------------------------------------
    def event(self, *e):
        self.it.path.event(*e)
        for f in self.site_checks:
            f(e)

    def events(self, kind=None):
        return [e for e in self.it.path.events if kind is None or e[0] == kind]

    # -- suspension -----------------------------------------------------------------------
    def _on_suspend(self, it, reason):
        self.suspensions += 1
        self.event("suspend", reason)
        aio.advance_clock(it, at_least=0)
        if not self.frozen:
            for f in self.havocs:
                f(reason)

    def nondet(self, n, label):
        return self.it.path.choose(n, label)


# -------------------------------------------------------------------------------------------
# streams


class WriterModel:
    """asyncio.StreamWriter: write() appends to the connection's byte stream in call order and never
    raises; drain()/wait_closed() may suspend and may raise OSError; close() is idempotent."""

    _n = 0

    def __init__(self, world, label="writer", closed=False, closing=None):
        self.world = world
        self.label = label
        self.closed = closed  # ghost: close() has been called on it
        self.closing = closed if closing is None else closing
        self.written = []

    def __repr__(self):
        return f"<Writer {self.label} closed={self.closed}>"

    def py_truth(self, it):
        return True

    def py_getattr(self, it, name):
        w = self.world
        if name == "write":
            def write(data):
                self.written.append(data)
                w.event("write", self, data)
            return Builtin("writer.write", write)
        if name == "close":
            def close():
                self.closed = True
                self.closing = True
                w.event("close", self)
            return Builtin("writer.close", close)
        if name == "is_closing":
            return Builtin("writer.is_closing", lambda: self.closing)
        if name == "drain":
            def drain():
                def run(it2):
                    w.event("drain", self)
                    aio.suspend(it2, ("drain", self))
                    k = w.nondet(3, "drain outcome")
                    if k == 1:
                        raise it2.exc("ConnectionResetError", "drain")
                    if k == 2:
                        raise it2.exc("OSError", "drain")
                    return None
                return aio.Awaitable("drain", run)
            return Builtin("writer.drain", drain)
        if name == "wait_closed":
            def wait_closed():
                def run(it2):
                    aio.suspend(it2, ("wait_closed", self))
                    k = w.nondet(2, "wait_closed outcome")
                    if k == 1:
                        raise it2.exc("ConnectionResetError", "wait_closed")
                    return None
                return aio.Awaitable("wait_closed", run)
            return Builtin("writer.wait_closed", wait_closed)
        raise _unmodelled(self, name)


class ReaderModel:
    """asyncio.StreamReader.readexactly(n): returns exactly the next n bytes of the connection's
    stream regardless of segmentation, or raises IncompleteReadError at EOF, or OSError."""

    def __init__(self, world, label="reader", stream=None, cursor=0):
        self.world = world
        self.label = label
        if stream is None:
            stream = z3.Array(sym.fresh_name("stream"), z3.IntSort(), z3.IntSort())
        self.stream = stream
        self.cursor = cursor
        self.reads = []

    def __repr__(self):
        return f"<Reader {self.label} cursor={self.cursor}>"

    def py_truth(self, it):
        return True

    def py_getattr(self, it, name):
        w = self.world
        if name == "readexactly":
            def readexactly(n):
                def run(it2):
                    w.event("readexactly", self, n)
                    aio.suspend(it2, ("readexactly", self, n))
                    k = w.nondet(3, "readexactly outcome")
                    if k == 1:
                        raise it2.exc("IncompleteReadError", "eof")
                    if k == 2:
                        raise it2.exc("ConnectionResetError", "read")
                    if is_sym(n):
                        it2.path.assume(n >= 0)
                    elif n < 0:
                        raise it2.exc("ValueError", "readexactly size can not be less than zero")
                    view = ABytes(self.stream, self.cursor, n, self.label)
                    self.reads.append((self.cursor, n))
                    self.cursor = self.cursor + n
                    if isinstance(n, int) and n <= 64 and isinstance(view.off, int) or (isinstance(n, int) and n <= 64):
                        items = []
                        for i in range(n):
                            b = view.at(i)
                            it2.path.assume(And(b >= 0, b <= 255))
                            items.append(b)
                        return BytesVal(items)
                    return view
                return aio.Awaitable("readexactly", run)
            return Builtin("reader.readexactly", readexactly)
        if name == "read":
            # read(n) returns *up to* n bytes, as many as the current segment holds: segmentation dependent.
            def read(n=-1):
                def run(it2):
                    w.event("read-other", self, name)
                    aio.suspend(it2, ("read", self, n))
                    if is_sym(n) or n < 0 or n > 32:
                        raise Unsupported("StreamReader.read with a large / symbolic size")
                    k = w.nondet(n + 1, "bytes available in this segment")
                    view = ABytes(self.stream, self.cursor, k, self.label)
                    items = []
                    for i in range(k):
                        b = view.at(i)
                        it2.path.assume(And(b >= 0, b <= 255))
                        items.append(b)
                    self.cursor = self.cursor + k
                    return BytesVal(items)
                return aio.Awaitable("read", run)
            return Builtin("reader.read", read)
        if name in ("readline", "readuntil"):
            def other(*a, **k):
                w.event("read-other", self, name)
                raise Unsupported(f"StreamReader.{name} (segmentation dependent) is outside the contract")
            return Builtin("reader." + name, other)
        raise _unmodelled(self, name)


# -------------------------------------------------------------------------------------------
# subscribers


class SubscriberModel:
    """An arbitrary `async def` callable registered by the user: calling it never raises
    synchronously; awaiting the call may suspend, may call any public method (interference) and may
    raise any Exception."""

    def __init__(self, world, label):
        self.world = world
        self.label = label

    def __repr__(self):
        return f"<subscriber {self.label}>"

    def py_call(self, it, args, kwargs):
        return SubscriberCall(self, args, kwargs)

    def __hash__(self):
        return id(self)

    def __eq__(self, o):
        return o is self


class SubscriberCall:
    def __init__(self, sub, args, kwargs):
        self.sub = sub
        self.args = args
        self.kwargs = kwargs
        self.awaited = 0

    def __repr__(self):
        return f"<call {self.sub.label}{self.args}{self.kwargs}>"

    def aw_await(self, it):
        w = self.sub.world
        self.awaited += 1
        w.event("subscriber-await", self.sub, self.args, self.kwargs)
        aio.suspend(it, ("subscriber", self.sub))
        k = w.nondet(2, "subscriber outcome")
        if k == 1:
            raise it.exc("Exception", "raised by a subscriber")
        return None


class AbsSet:
    """A set of subscribers of arbitrary size, given by name (identity of the abstract set) plus
    concretely known additions / removals made since.  Iteration is only possible through the
    'for every element' rule (AbsCallList)."""

    def __init__(self, world, name, added=(), removed=(), parts=None):
        self.world = world
        self.name = name
        self.added = list(added)
        self.removed = list(removed)
        self.parts = parts  # for unions: list of AbsSet

    def __repr__(self):
        if self.parts:
            return "(" + " | ".join(map(repr, self.parts)) + ")"
        return f"AbsSet({self.name}+{self.added}-{self.removed})"

    def descriptor(self):
        if self.parts:
            return ("union",) + tuple(sorted(p.descriptor() for p in self.parts))
        return (self.name, tuple(id(a) for a in self.added), tuple(id(r) for r in self.removed))

    def py_getattr(self, it, name):
        if name == "add":
            def add(x):
                if x in self.removed:
                    self.removed.remove(x)
                if x not in self.added:
                    self.added.append(x)
                self.world.event("set.add", self, x)
            return Builtin("set.add", add)
        if name == "discard":
            def discard(x):
                if x in self.added:
                    self.added.remove(x)
                if x not in self.removed:
                    self.removed.append(x)
                self.world.event("set.discard", self, x)
            return Builtin("set.discard", discard)
        if name == "union":
            def union(*others):
                parts = [self]
                for o in others:
                    if not isinstance(o, AbsSet):
                        raise Unsupported("union of an abstract set with a concrete one")
                    parts.append(o)
                return AbsSet(self.world, "union", parts=parts)
            return Builtin("set.union", union)
        if name == "clear":
            raise Unsupported("clear() of an abstract set")
        raise _unmodelled(self, name)

    def py_truth(self, it):
        return sym.fresh_bool("nonempty_" + self.name)

    def py_binop(self, it, op, other):
        import ast as _ast
        if isinstance(op, _ast.BitOr):
            return it.call(self.py_getattr(it, "union"), [other], {})     # s | t == s.union(t)
        raise Unsupported(f"operator {type(op).__name__} on an abstract set")

    def py_listcomp(self, it, node, gen, env):
        """[elt for target in <this set>]: the element expression evaluated on a generic member."""
        from .interp import Env
        if gen.ifs:
            raise Unsupported("filtered comprehension over an abstract set")
        generic = SubscriberModel(self.world, f"any-of-{self.name}")
        cenv = Env(env)
        it.assign(gen.target, generic, cenv)
        elt = it.eval(node.elt, cenv)
        return AbsCallList(self, elt)


class AbsCallList:
    """[s(args) for s in S] for an abstract set S: one call per member."""

    def __init__(self, aset, generic_call):
        self.aset = aset
        self.generic = generic_call

    def __repr__(self):
        return f"AbsCallList({self.aset!r}, {self.generic!r})"

    def py_for(self, it, node, env):
        """`for x in <calls>` (also through asyncio.as_completed): every member's call is bound to the
        loop variable exactly once.  Rule: (branch 0) the body is executed for one arbitrary member,
        any exception it lets out propagates; (branch 1) afterwards: the shared state is arbitrary
        (the calls were awaited in the body) and the event ("for-all-members", set, call) is logged.
        """
        w = self.aset.world
        which = w.nondet(2, "for-all-members")
        if which == 0:
            it.assign(node.target, self.generic, env)
            from .interp import _Break, _Continue, _Return
            try:
                it.exec_block(node.body, env)
            except _Continue:
                pass
            except (_Break, _Return):
                it.path.oblige("the notification loop goes on to the next subscriber after every subscriber (no early return / break)",
                               False, kind="site")
            if isinstance(self.generic, SubscriberCall):
                w.event("member-body-done", self.aset, self.generic.awaited)
                it.path.oblige("every subscriber call is awaited exactly once in the notification loop",
                               self.generic.awaited == 1, kind="site")
            raise PathEnd()
        w.event("for-all-members", self.aset.descriptor(),
                (self.generic.args, self.generic.kwargs) if isinstance(self.generic, SubscriberCall) else self.generic)
        # the members ran: interference
        aio.suspend(it, ("for-all-members", self.aset))
        if node.orelse:
            it.exec_block(node.orelse, env)
        return None
