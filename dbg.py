"""Debug helper: python3-vt dbg.py <module> [name-substring]  -- runs obligation sets in-process."""
import sys, time, json, importlib
sys.path.insert(0, '/verif')
import os
sys.path.insert(1, os.environ.get('PYVC_REPO', '/repo'))
from pyvc import vc
from pyvc.check import build_loader
L = build_loader()
importlib.import_module(sys.argv[1])
flt = sys.argv[2] if len(sys.argv) > 2 else ""
for o in vc.REGISTRY:
    if flt not in o.name: continue
    t = time.time(); rep = vc.run_oset(o, L); j = rep.to_json()
    print(f"== {o.name}: {j['status']} paths={j['paths']} {time.time()-t:.2f}s solver={j['solver_secs']}s")
    for k, v in j['obligations'].items():
        if v['status'] != 'discharged':
            print('   ', v['status'].upper(), k, '| model:', json.dumps(v.get('model'), default=str)[:600])
    for u in j['undecided'][:5]: print('    UNDECIDED', u[:400])
    for e in j['errors'][:3]: print('    ERROR', e[:1500])
    print('    obligations:', len(j['obligations']), 'discharged:', sum(1 for v in j['obligations'].values() if v['status']=='discharged'))
